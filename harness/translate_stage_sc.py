"""translate_stage_sc -- the translator obligation for the space-charge kick (property C19), same contract as
translate_stage.translator_obligation_bmadx:

  1. harness/translate_sc.py regenerates Gen/ScGen.v from the SOURCE TEXT of common.REPO (nothing of cheetah is imported);
  2. the fresh text is written to a per-process build directory and compiled there; Gen/ScGenEquiv.v and Gen/ScGenProps.v are
     copied next to it with their `From Cheetah.Gen Require Import ScGen(Equiv).` lines redirected to the fresh logical path
     `CheetahFresh`, so that the proofs are checked against the REGENERATED definitions, never against the committed copy;
  3. the axioms reported by Print Assumptions are audited against common.AXIOM_WHITELIST, and the hand-written files are
     scanned for forbidden vernacular.

Statuses: ok / translator_failed (source left the translated fragment: reason, file, line) / equivalence_broken (a lemma
`generated = model` no longer holds: file, line, lemma, coq_error) / stage_error (a prerequisite did not build, audit failed).
Records into run.cov["translator_sc"].  Prints nothing."""
import hashlib
import re
import time

import common
import translate_maps
from translate_stage import FRESH, GEN, _assumptions, _coq_failure, _redirect

SC_IMPORT_GEN = "From Cheetah.Gen Require Import ScGen."
SC_IMPORT_EQV = "From Cheetah.Gen Require Import ScGenEquiv."
SC_TARGETS = ["theories/SpaceCharge/Igf", "theories/SpaceCharge/Hockney", "theories/Gen/ScGenBase"]
SC_PREREQ = ["theories/SpaceCharge/Igf", "theories/SpaceCharge/Cic", "theories/SpaceCharge/Hockney", "theories/Gen/ScGenBase"]
SC_DEPS = {"theories/SpaceCharge/Hockney": ["theories/SpaceCharge/Cic"], "theories/Gen/ScGenBase": ["theories/SpaceCharge/Cic"]}
SC_TRUSTED = ("source-to-Coq translator harness/translate_sc.py (per-sample / per-particle / per-grid-point reading, data-flow roles, "
              "slice and mask reading, corner / axis enumeration and entry order of the cloud-in-cell code, declared frames: in its docstring): "
              "ties SpaceCharge/Igf.v (ipot, igf), Cic.v (nrm, cell_of, corners, cw, valid, contrib, inv_vol, rho, gather, dt_of, kick_one, "
              "geometry of Gen/ScGenBase.v) and Hockney.v (ig2_of, grad, field) to /repo's source text")


def _sc_prereq_fresh():
    mt = {}
    for p in SC_PREREQ:
        v, vo = common.COQ / (p + ".v"), common.COQ / (p + ".vo")
        if not vo.exists() or vo.stat().st_mtime < v.stat().st_mtime:
            return False
        mt[p] = vo.stat().st_mtime
    return all(mt[d] <= mt[p] for p, ds in SC_DEPS.items() for d in ds)


def translator_obligation_sc(run=None, audit="bundle", timeout=200):
    """audit = "bundle": one Print Assumptions over all final statements (fast); "full": one per theorem, as in the committed file."""
    import translate_sc
    t0 = time.time()
    res = dict(status="ok", repo=str(common.REPO), translated=[], lemmas=[], theorems=[], axioms=[])

    def done():
        res["wall_s"] = round(time.time() - t0, 2)
        if run is not None:
            n = len(res["lemmas"]) + len(res["theorems"]) or 1
            run.cov["obligations"] += n
            if res["status"] == "ok":
                run.cov["discharged"] += n
            run.cov["translator_sc"] = {k: res.get(k) for k in ("status", "reason", "file", "line", "lemma", "generated_sha256", "committed_copy_stale",
                                                                  "translated", "lemmas", "theorems", "axioms", "wall_s")}
            if SC_TRUSTED not in run.cov["trusted_base"]:
                run.cov["trusted_base"].append(SC_TRUSTED)
        return res

    # 1. translate (pure syntax; nothing of cheetah is imported)
    try:
        text, info = translate_sc.generate_info(common.REPO)
    except translate_maps.TranslateError as ex:
        res.update(status="translator_failed", reason=ex.reason, file=ex.file, line=ex.line)
        return done()
    except RecursionError:
        res.update(status="translator_failed", reason="expression nesting too deep for the translator", file=None, line=None)
        return done()
    res["translated"] = info
    res["generated_sha256"] = hashlib.sha256(text.encode()).hexdigest()
    committed = GEN / "ScGen.v"
    res["committed_copy_stale"] = (not committed.exists()) or committed.read_text() != text

    # 2. prerequisites (hand-written, stable)
    if not _sc_prereq_fresh():
        for tgt in SC_TARGETS:
            ok, log = common.coq_build(tgt + ".vo")
            if not ok:
                res.update(status="stage_error", reason=f"build of {tgt}.vo failed: " + log[-800:])
                return done()

    bdir = common.BUILD / "translate_sc"
    bdir.mkdir(parents=True, exist_ok=True)
    for old in bdir.glob("ScGen*"):
        old.unlink()
    extra = ["-Q", str(bdir), FRESH]
    try:
        eqv = _redirect((GEN / "ScGenEquiv.v").read_text(), SC_IMPORT_GEN, f"From {FRESH} Require Import ScGen.", "ScGenEquiv.v")
        props = _redirect((GEN / "ScGenProps.v").read_text(), SC_IMPORT_GEN, f"From {FRESH} Require Import ScGen.", "ScGenProps.v")
        props = _redirect(props, SC_IMPORT_EQV, f"From {FRESH} Require Import ScGenEquiv.", "ScGenProps.v")
    except (RuntimeError, OSError) as ex:
        res.update(status="stage_error", reason=str(ex))
        return done()
    res["lemmas"] = re.findall(r"^\s*Lemma\s+(gen_[\w']+)", eqv, flags=re.M)
    res["theorems"] = re.findall(r"^\s*Theorem\s+([\w']+)", props, flags=re.M)
    missing = [i["coq_name"] + "_eq" for i in info if i["coq_name"] + "_eq" not in res["lemmas"]]
    # a lemma about a definition that the regenerated file no longer has would be about the committed copy only
    have = {i["coq_name"] for i in info}
    missing += [lm + " (no such generated definition)" for lm in res["lemmas"] if lm.endswith("_eq") and lm[:-3] not in have
                and lm != "gen_geometry_eq"]
    if missing:
        res.update(status="equivalence_broken", lemma="<missing> " + ", ".join(missing), file="ScGenEquiv.v", line=0,
                   coq_error="the regenerated file and Gen/ScGenEquiv.v do not list the same definitions")
        return done()
    if audit == "bundle":
        props = re.sub(r"^Print Assumptions [\w']+\.\s*$", "", props, flags=re.M)
        props += "\nDefinition trx_all := (" + ", ".join(res["theorems"]) + ").\nPrint Assumptions trx_all.\n"

    # 3. compile the fresh transcription, then the proofs against it
    out = ""
    for name, body in (("ScGen.v", text), ("ScGenEquiv.v", eqv), ("ScGenProps.v", props)):
        path = bdir / name
        path.write_text(body)
        rc, out, err = common.coqc(path, extra=extra, timeout=timeout)
        if rc != 0:
            if name == "ScGen.v":
                m = re.search(r'line (\d+), characters', err or "")
                res.update(status="translator_failed", reason="generated file does not compile: " + (err or "")[-600:],
                           file="ScGen.v", line=int(m.group(1)) if m else 0)
                return done()
            _coq_failure(res, path, body, rc, err)
            return done()
    closed, axioms = _assumptions(out)
    res["axioms"] = sorted(axioms)
    bad = sorted(a for a in axioms if a not in common.AXIOM_WHITELIST and a.split(".")[-1] not in common.AXIOM_WHITELIST)
    forbidden = re.compile(r"\b(Admitted|admit|Axiom|Axioms|Parameter|Parameters|Conjecture|Unset Guard Checking|bypass_check)\b")
    for f in ("ScGenBase.v", "ScGenEquiv.v", "ScGenProps.v"):
        body = re.sub(r"\(\*.*?\*\)", "", (GEN / f).read_text(), flags=re.S)
        bad += [f"{m.group(1)} in Gen/{f}" for m in forbidden.finditer(body)]
    if forbidden.search(text):
        bad.append("forbidden vernacular in the generated text")
    if bad or (not axioms and not closed):
        res.update(status="stage_error", reason=f"axiom audit failed: {bad or 'no Print Assumptions output'}")
    return done()


def replay_fields_sc(res):
    """Compact, JSON-able description of a non-ok result of translator_obligation_sc for a replay/violation record."""
    keep = ("status", "reason", "file", "line", "lemma", "coq_error", "generated_sha256")
    d = {k: res[k] for k in keep if res.get(k) is not None}
    d["kind"] = "translator_sc"
    d["broken"] = ("source left the translated fragment: " + str(res.get("reason"))) if res["status"] == "translator_failed" else \
        (f"Gen/ScGenEquiv.v {res.get('lemma')}: regenerated definition <> hand-written model (SpaceCharge/Igf.v, Cic.v, Hockney.v)"
         if res["status"] == "equivalence_broken" else str(res.get("reason")))
    return d
