"""translate_stats -- regenerate a Coq transcription of cheetah's beam-statistics / diagnostics formulas from /repo's SOURCE TEXT.

Same construction as harness/translate_maps.py (whose module / statement machinery is reused by import), for the
functions whose hand-written models carry the theorems of C17 (Twiss, emittance), C06 (moments), C10 (apertures,
survival) and C20 (only the BPM reading formula, i.e. ParticleBeam.mu_x / mu_y).  The sources are read with `ast` (nothing of cheetah is
imported or executed), translated into Coq definitions over R (`Gen/StatsGen.v`), and `Gen/StatsGenEquiv.v` proves,
definition by definition, `generated = hand-written model` (Beam/WStats.v, Beam/Twiss.v, Beam/TwCorr.v,
Beam/WMoments.v at R, Beam/SI.v; Diag/Aperture.v `mask` and Diag/Screen.v `centroid` through Q2R).  A semantic edit of a translated
function changes the generated term and the lemma is false; an edit that leaves the fragment raises TranslateError
(reason, file, line).  Nothing is skipped silently.

TRUSTED BASE (quoted in DESIGN.md): Python's `ast`; the SAMPLE READING and the tables below; the list SPECS (which
functions, which `self` attributes are parameters and of which kind); the Coq kernel.

Translated functions (SPECS, in this order; later ones may use earlier ones):
  cheetah/utils/statistics.py       unbiased_weighted_covariance, unbiased_weighted_variance, unbiased_weighted_std
  cheetah/particles/particle_beam.py ParticleBeam.{x, px, y, py, tau, p} (coordinate getters), total_charge,
                                    num_particles_survived, mu_x .. mu_p, sigma_x .. sigma_p, sigma_xpx, sigma_ypy
  cheetah/particles/beam.py         Beam.relativistic_gamma, relativistic_beta, emittance_x/y,
                                    normalized_emittance_x/y, beta_x/y, alpha_x/y
                                    (sigma_x, sigma_px, sigma_xpx .. are the ABSTRACT properties of Beam: real
                                    parameters here; it is checked that Beam declares each of them exactly once as
                                    `@property @abstractmethod` with body `raise NotImplementedError`, and that
                                    ParticleBeam / ParameterBeam derive from Beam only and do not redefine a Twiss getter)
  cheetah/particles/parameter_beam.py ParameterBeam.mu_x .. mu_p, sigma_x .. sigma_p, sigma_xpx, sigma_ypy
  cheetah/accelerator/aperture.py   Aperture.track  (the new survival probability of ONE particle, see below)

SAMPLE READING.  The particle axis (last axis of `particles[..., k]`, `particle_charges`, `survival_probabilities`,
of the inputs of statistics.py) is a LIST `l : list S` of samples of an arbitrary type S; a tensor along that axis
is a function `S -> R` (kind "S"; `particles` is `S -> V7 R`, kind "S7", `particles[..., k]` = c_k).  All other
(batch) dimensions do not exist.  Every real value carries a SHAPE TAG which is checked, not trusted:
    const   a Python number / module constant                  combines with anything
    batch   shape (...)      e.g. the result of a reduction      batch (+) batch = batch
    batch1  shape (..., 1)   `v.unsqueeze(-1)` of a batch value  batch1 (+) batch1 = batch1,  sample (+) batch1 = sample
    sample  shape (..., n)                                       sample (+) sample = sample
  sample (+) batch and batch (+) batch1 FAIL (they broadcast wrongly or not at all for a vectorised beam): dropping a
  `.unsqueeze(-1)` is therefore detected, and so is adding one.  A function must return batch/const (kind R) or
  sample (kind S) values.
  reductions       torch.sum(e, dim=D) / e.sum(dim=D), e of shape sample  =  gsum (fun i => e) l     [batch]
                   (gsum f l = fold_right (fun p acc => f p + acc) 0 l, Gen/StatsGenBase.v -- the `sumf` of Beam/WStats.v)
                   D must be given and be the function's own `dim` parameter or the literal -1 (a sum without `dim`
                   also reduces the batch axes: fails); `keepdim=True` gives batch1
  `dim`            parameter of kind dim (default None) may only be passed on as `dim=`; callers must pass -1 / their own dim
  statements       as in translate_maps (x = e -> let, docstrings, return, assert -> gen_<f>_pre, if/else on scalar tests);
                   a sample-shaped local `x = e` becomes  let x := (fun i => e) in ..
  expressions      number literals (exact decimal text), + - * / unary -, e ** n (n literal natural),
                   torch.sqrt = sqrt, torch.abs = Rabs, torch.clamp_min(a, b) = Rmax a b,
                   torch.finfo(X.dtype).tiny = the parameter `tiny` (X a real value; which dtype is not tracked:
                   2^-1022 or 2^-126, see Beam/Twiss.v), electron_mass_eV = m_e (same idiom check as translate_maps),
                   v[..., k] (v of kind V7/S7) = c_k v,  m[..., i, j] (m of kind M7) = c_j (c_i m),
                   f(args) / self.prop for translated functions / properties = gen_f args
  one-element idiom (Beam.relativistic_beta):
                   r = torch.ones_like(g);  r[c1] = f(g[c2]);  return r     with c1, c2 tests on the batch value g
                   = if c1 then f(g) else 1, and gen_<f>_pre records (c1 <-> c2) (otherwise torch raises a shape error)
  conditions       a == b, !=, <, <=, >, >= on reals (shape by the rule above),  c & d,  c | d,
                   torch.logical_and / logical_or,  torch.all / torch.any of a batch test = the test,
                   `A and B` of two such tests
APERTURE READING (Aperture.track).  `incoming` is a ParticleBeam seen through its buffers and getters: incoming.x / incoming.y
  are the TRANSLATED getters ParticleBeam.x / .y applied to incoming.particles (so: columns 0 and 2),
  incoming.survival_probabilities is a sample value.  The half sizes
  self.x_max / self.y_max are EXTENDED reals (kind xR: `XFin r | XPInf | XNInf`, Gen/StatsGenBase.v) because the constructor
  default is +inf; on them only these operations are understood, with IEEE semantics for +-inf:
      - m,  m ** n (n >= 1 literal; (-inf)^n = +-inf by parity),  m.unsqueeze(-1),  a / m  (a real; a / +-inf = 0),
      a < m, a > m, a <= m, a >= m  (a real)            -- anything else fails.
  self.shape is one of the two strings checked by the assert; the generated function takes `shape : apshape`
  (`Rectangular | Elliptical`).  The translated result is the `survival_probabilities=` keyword of the returned
  ParticleBeam(..) as a function of ONE sample: incoming survival * mask, mask = if test then 1 else 0 (bool -> float);
  every other keyword must pass `incoming.<same attribute>` through.  The guard `if not (isinstance(incoming,
  ParticleBeam) and self.is_active): return incoming` is recognised literally and is NOT part of the value (dispatch).
NOT covered: float rounding; batching (beyond the shape tags); class machinery (constructors, buffers, inheritance is
only checked to be `ParticleBeam(Beam)`, `ParameterBeam(Beam)`, `Beam(ABC, nn.Module)`, `Aperture(Element)` with the
Twiss getters not overridden); dispatch in `track`; the elliptical aperture with a ZERO half size (IEEE inf/nan); the whole of
screen.py (effective_resolution, extent, pixel_bin_edges, pixel_bin_centers, track, histogramdd, the ParameterBeam image) and
BPM.track (which getters it stacks) -- NOT translated; anything outside the listed functions.
"""
import ast
import hashlib
import re
import sys
from pathlib import Path

import translate_maps as tm
from translate_maps import TranslateError, V, Tup, Meta, Opaque, Str

ST = "cheetah/utils/statistics.py"
PBF = "cheetah/particles/particle_beam.py"
BMF = "cheetah/particles/beam.py"
QBF = "cheetah/particles/parameter_beam.py"
APF = "cheetah/accelerator/aperture.py"
IVAR = "i__"

COORDS = ["x", "px", "y", "py", "tau", "p"]
ABSTRACT = ["mu_x", "sigma_x", "mu_px", "sigma_px", "mu_y", "sigma_y", "mu_py", "sigma_py", "mu_tau", "sigma_tau", "mu_p", "sigma_p",
            "sigma_xpx", "sigma_ypy"]
TWISS = ["relativistic_gamma", "relativistic_beta", "emittance_x", "normalized_emittance_x", "beta_x", "alpha_x",
         "emittance_y", "normalized_emittance_y", "beta_y", "alpha_y"]
PB_BASES = ["Name(id='Beam', ctx=Load())"]
BM_BASES = ["Name(id='ABC', ctx=Load())", "Attribute(value=Name(id='nn', ctx=Load()), attr='Module', ctx=Load())"]
PART = ("particles", "S7")
SURV = ("survival_probabilities", "S")
CHG = ("particle_charges", "S")


def _pb(fn, attrs, **kw):
    return dict(file=PBF, cls="ParticleBeam", fn=fn, prop=True, attrs=attrs, params=[], bases=PB_BASES, must_not_define=TWISS, **kw)


def _bm(fn, attrs, **kw):
    return dict(file=BMF, cls="Beam", fn=fn, prop=True, attrs=attrs, params=[], bases=BM_BASES, **kw)


def _qb(fn, attrs):
    return dict(file=QBF, cls="ParameterBeam", fn=fn, prop=True, attrs=attrs, params=[], bases=PB_BASES, must_not_define=TWISS)


SPECS = [
    dict(file=ST, cls=None, fn="unbiased_weighted_covariance", params=["S", "S", "S", "dim"]),
    dict(file=ST, cls=None, fn="unbiased_weighted_variance", params=["S", "S", "dim"]),
    dict(file=ST, cls=None, fn="unbiased_weighted_std", params=["S", "S", "dim"]),
]
SPECS += [_pb(c, [PART]) for c in COORDS]
SPECS += [_pb("total_charge", [CHG, SURV]), _pb("num_particles_survived", [SURV])]
for c in COORDS:
    SPECS += [_pb("mu_" + c, [PART, SURV]), _pb("sigma_" + c, [PART, SURV])]
SPECS += [_pb("sigma_xpx", [PART, SURV]), _pb("sigma_ypy", [PART, SURV])]
SPECS += [
    _bm("relativistic_gamma", [("energy", "R")]),
    _bm("relativistic_beta", [("energy", "R")]),
]
for pl, (s, sp, spp) in (("x", ("sigma_x", "sigma_px", "sigma_xpx")), ("y", ("sigma_y", "sigma_py", "sigma_ypy"))):
    A3 = [(s, "absR"), (sp, "absR"), (spp, "absR")]
    SPECS += [
        _bm("emittance_" + pl, A3),
        _bm("normalized_emittance_" + pl, A3 + [("energy", "R")]),
        _bm("beta_" + pl, A3),
        _bm("alpha_" + pl, A3),
    ]
for k, c in enumerate(COORDS):
    SPECS += [_qb("mu_" + c, [("_mu", "V7")]), _qb("sigma_" + c, [("_cov", "M7")])]
SPECS += [_qb("sigma_xpx", [("_cov", "M7")]), _qb("sigma_ypy", [("_cov", "M7")])]

ORIGINS = {
    "torch": [("import", "torch")],
    "nn": [("from", "torch")],
    "ABC": [("from", "abc")],
    "abstractmethod": [("from", "abc")],
    "Beam": [("from", "cheetah.particles.beam"), ("from", "cheetah.particles")],
    "ParticleBeam": [("from", "cheetah.particles.particle_beam"), ("from", "cheetah.particles")],
    "Element": [("from", "cheetah.accelerator.element")],
    "unbiased_weighted_covariance": [("from", "cheetah.utils"), ("def", ST)],
    "unbiased_weighted_variance": [("from", "cheetah.utils"), ("def", ST)],
    "unbiased_weighted_std": [("from", "cheetah.utils"), ("def", ST)],
    "physical_constants": [("from", "scipy.constants")],
    "electron_mass_eV": [("idiom", None)],
}
REEXPORTS = [
    ("cheetah/utils/__init__.py", "unbiased_weighted_covariance", ".statistics"),
    ("cheetah/utils/__init__.py", "unbiased_weighted_variance", ".statistics"),
    ("cheetah/utils/__init__.py", "unbiased_weighted_std", ".statistics"),
]

EMITTED = tm.EMITTED | {"gsum", "Rmax", "Rabs", "Rmin", "V7", "list", "S", "l", "tiny", IVAR, "c0", "c1", "c2", "c3", "c4", "c5", "c6",
                        "XFin", "XPInf", "XNInf", "xR", "xopp", "xpow", "xdiv", "Rltx_dec", "Rgtx_dec", "Rlex_dec", "Rgex_dec", "Rltx", "Rgtx",
                        "Rlex", "Rgex", "apshape", "Rectangular", "Elliptical", "shape"}


# ---------------------------------------------------------------------------------------------- values
class Rv(V):            # real value; shape in const | batch | batch1 ; fresh = tensor created by torch.ones_like in this function
    kind = "R"

    def __init__(self, t, shape="batch", fresh=False):
        self.t, self.shape, self.fresh = t, shape, fresh


class PS(V):            # value along the particle axis: a Coq term of type R mentioning the sample variable IVAR
    kind = "S"

    def __init__(self, t):
        self.t = t


class P7(V):            # particles: a Coq term of type V7 R mentioning IVAR
    kind = "S7"

    def __init__(self, t):
        self.t = t


class V7v(V):
    kind = "V7"

    def __init__(self, t):
        self.t = t


class M7v(V):
    kind = "M7"

    def __init__(self, t):
        self.t = t


class Dim(V):
    kind = "dim"


class DType(V):
    kind = "dtype"


class Finfo(V):
    kind = "finfo"


class Bv(V):            # test; c a condition tuple as in translate_maps; shape const | batch | batch1 | sample
    kind = "test"

    def __init__(self, c, shape):
        self.c, self.shape = c, shape


class Xv(V):            # extended real (half size of an aperture): Coq term of type xR
    kind = "xR"

    def __init__(self, t, shape="batch"):
        self.t, self.shape = t, shape


class ShapeV(V):        # Aperture.shape
    kind = "shape"


class ShTest(V):        # self.shape == "name" / != "name"
    kind = "shape-test"

    def __init__(self, name, neg):
        self.name, self.neg = name, neg


class ShIn(V):          # self.shape in [names]
    kind = "shape-membership"

    def __init__(self, names):
        self.names = names


class BeamObj(V):       # `incoming`: a ParticleBeam seen through its attributes / translated getters
    kind = "beam"

    def __init__(self, attrs):
        self.attrs = attrs


class Pass(V):          # incoming.<attr> that may only be passed through to the outgoing beam
    kind = "pass-through"

    def __init__(self, attr):
        self.attr = attr


class NewBeam(V):       # ParticleBeam(.., survival_probabilities=e, ..) with everything else passed through
    kind = "new-beam"

    def __init__(self, surv):
        self.surv = surv


class Gather(V):        # g[c] inside the right-hand side of a masked write
    kind = "gather"


XOPS = {"xlt": ("Rltx", "<"), "xgt": ("Rgtx", ">"), "xle": ("Rlex", "<="), "xge": ("Rgex", ">=")}


def ifc(c, a, b):
    """translate_maps.ifc plus the comparisons real-vs-extended-real (xlt a m: a < m, ...)."""
    op = c[0]
    if op in XOPS:
        return f"(if {XOPS[op][0]}_dec {c[1]} {c[2]} then {a} else {b})"
    if op == "and":
        return ifc(c[1], ifc(c[2], a, b), b)
    if op == "or":
        return ifc(c[1], a, ifc(c[2], a, b))
    if op == "not":
        return ifc(c[1], b, a)
    return tm.ifc(c, a, b)


def propc(c):
    op = c[0]
    if op in XOPS:
        return f"({XOPS[op][0]} {c[1]} {c[2]})"
    if op == "and":
        return f"({propc(c[1])} /\\ {propc(c[2])})"
    if op == "or":
        return f"({propc(c[1])} \\/ {propc(c[2])})"
    if op == "not":
        return f"(~ {propc(c[1])})"
    return tm.propc(c)


def join_shape(a, b):
    """Broadcast rule of the sample reading; None = not allowed."""
    if a == "const":
        return b
    if b == "const":
        return a
    if a == b:
        return a
    if {a, b} == {"sample", "batch1"}:
        return "sample"
    return None


def shape_of(v):
    if isinstance(v, PS):
        return "sample"
    if isinstance(v, (Rv, Bv, Xv)):
        return v.shape
    return None


def mk_real(t, shape):
    return PS(t) if shape == "sample" else Rv(t, shape)


# ---------------------------------------------------------------------------------------------- modules
class SModule(tm.Module):
    def global_origin(self, name, node):
        b = self.bind.get(name, [])
        if len(b) != 1:
            self.fail(node, f"global name {name!r} is bound {len(b)} times at module level (expected exactly once)")
        kind, detail, st = b[0]
        ok = ORIGINS.get(name)
        if ok is None:
            self.fail(node, f"global name {name!r} is not part of the translated fragment")
        for k, d in ok:
            if k == "idiom" and kind == "assign":
                if (isinstance(st, ast.Assign) and len(st.targets) == 1 and isinstance(st.targets[0], ast.Name)
                        and ast.dump(st.value) == tm.M_E_IDIOM):
                    self.global_origin("physical_constants", node)
                    return
            elif k == kind and d == detail:
                return
        self.fail(node, f"global name {name!r} has an unexpected origin ({kind} {detail})")

    def find_method(self, cls, fn, want_prop, bases):
        """Class node, function node and the class-body bindings.  A property may be accompanied by `@<fn>.setter`
        definitions of the same name (they act on writes only); nothing else may bind the name in the class body."""
        b = self.bind.get(cls, [])
        if len(b) != 1 or b[0][0] != "class":
            raise TranslateError(f"class {cls} is not defined exactly once", self.rel, 0)
        cnode = b[0][2]
        if [ast.dump(x) for x in cnode.bases] != bases or cnode.keywords:
            self.fail(cnode, f"class {cls}: unexpected base classes")
        for x in cnode.bases:
            self.global_origin(x.id if isinstance(x, ast.Name) else x.value.id, cnode)
        cb = {}
        self._collect(cnode.body, cb)
        defs = cb.get(fn, [])
        getters = []
        for kind, _, st in defs:
            if kind != "def" or not isinstance(st, ast.FunctionDef):
                self.fail(st, f"{cls}.{fn} is also bound by something that is not a function definition")
            decs = [ast.dump(d) for d in st.decorator_list]
            if decs == [f"Attribute(value=Name(id='{fn}', ctx=Load()), attr='setter', ctx=Load())"]:
                continue
            getters.append((st, decs))
        if len(getters) != 1:
            raise TranslateError(f"{cls}.{fn} is not defined exactly once", self.rel, getattr(cnode, "lineno", 0))
        f, decs = getters[0]
        return cnode, f, cb, decs


PROP = ["Name(id='property', ctx=Load())"]
ABSPROP = ["Name(id='property', ctx=Load())", "Name(id='abstractmethod', ctx=Load())"]


# ---------------------------------------------------------------------------------------------- function translator
class SFn(tm.FnTr):
    def __init__(self, tr, spec, mod):
        super().__init__(tr, spec, mod)
        self.used = {IVAR, "l", "S", "tiny", "shape"}
        self.uses_l = False
        self.uses_tiny = False
        self.attr_coq = {}
        self.dim_ok = False
        self.gathers = None          # list while evaluating the right-hand side of a masked write

    def fresh(self, py):
        base = py
        if (base in tm.COQ_KEYWORDS or base in EMITTED or base.startswith("gen_") or not re.match(r"^[A-Za-z_][A-Za-z0-9_]*$", base)
                or base == "_" or base.startswith("_")):
            base = ("v" if base.startswith("_") else "") + base + "_"
        name, k = base, 0
        while name in self.used:
            k += 1
            name = f"{base}_{k}"
        self.used.add(name)
        return name

    # -- coercions
    def real(self, v, node, what="operand"):
        if isinstance(v, (Rv, PS)):
            return v.t
        self.fail(node, f"{what} is not a real value in the sample reading (it is {v.kind})")

    def sc(self, v, node, what="operand"):
        if isinstance(v, Rv) and v.shape in ("const", "batch"):
            return v.t
        self.fail(node, f"{what} is not a batch-shaped real (it is {v.kind}{'/' + v.shape if isinstance(v, Rv) else ''})")

    def cond(self, v, node):
        if isinstance(v, Bv) and v.shape in ("const", "batch"):
            return v.c
        self.fail(node, f"not a scalar test in the sample reading (it is {v.kind}{'/' + v.shape if isinstance(v, Bv) else ''})")

    def join(self, a, b, node):
        s = join_shape(shape_of(a), shape_of(b))
        if s is None:
            self.fail(node, f"operands of shape {shape_of(a)} and {shape_of(b)} do not broadcast along the particle axis "
                            "(a reduced value needs .unsqueeze(-1) exactly once)")
        return s

    def is_dim(self, node, env):
        """`dim=` argument: the function's own dim parameter, the literal -1, or the literal None."""
        if isinstance(node, ast.Name) and isinstance(env.get(node.id), Dim):
            return True
        if isinstance(node, ast.Constant) and node.value is None:
            return True
        return ast.dump(node) == "UnaryOp(op=USub(), operand=Constant(value=1))"

    # -- expressions
    def e_Constant(self, n, env):
        if isinstance(n.value, str):
            return Str(n.value)
        return Rv(self.number(n), "const")

    def e_Name(self, n, env):
        if n.id in env:
            v = env[n.id]
            if isinstance(v, Opaque):
                self.fail(n, f"name {n.id!r} is outside the translated fragment")
            if isinstance(v, dict):
                self.fail(n, f"bare use of {n.id!r}")
            return v
        if n.id == "electron_mass_eV":
            self.mod.global_origin("electron_mass_eV", n)
            return Rv("m_e", "const")
        self.fail(n, f"unknown name {n.id!r}")

    def e_Attribute(self, n, env):
        if isinstance(n.value, ast.Name) and n.value.id == "self" and "self" in env:
            return self.self_attr(n, env)
        if isinstance(n.value, ast.Name) and n.value.id == "torch" and "torch" not in env:
            self.mod.global_origin("torch", n)
            self.fail(n, f"unsupported torch attribute torch.{n.attr}")
        v = self.ev(n.value, env)
        if n.attr == "dtype" and isinstance(v, (Rv, PS, P7)):
            return DType()
        if n.attr == "device" and isinstance(v, (Rv, PS, P7)):
            return Meta()
        if n.attr == "tiny" and isinstance(v, Finfo):
            self.uses_tiny = True
            return Rv("tiny", "const")
        return self.obj_attr(v, n, env)

    def obj_attr(self, v, n, env):
        self.fail(n, f"unsupported attribute .{n.attr} of a {v.kind} value")

    def self_attr(self, n, env):
        a, attrs = n.attr, env["self"]
        if a in attrs:
            return attrs[a]
        callee = self.tr.lookup(self.spec["cls"], a)
        if callee is not None and callee["spec"].get("prop"):
            return self.call_fn(callee, [], {}, n, env)
        self.fail(n, f"self.{a} is neither a declared parameter of {self.spec['cls']}.{self.spec['fn']} nor a translated property")

    def e_UnaryOp(self, n, env):
        v = self.ev(n.operand, env)
        if isinstance(n.op, ast.USub):
            if isinstance(v, (Rv, PS)):
                return mk_real(f"(- {v.t})", shape_of(v))
            return self.neg_other(v, n)
        if isinstance(n.op, ast.Not):
            return self.not_other(v, n)
        self.fail(n, f"unsupported unary operator {type(n.op).__name__}")

    def neg_other(self, v, n):
        self.fail(n, f"unary minus of a {v.kind} value")

    def not_other(self, v, n):
        self.fail(n, f"`not` of a {v.kind} value")

    def e_BinOp(self, n, env):
        op = n.op
        if isinstance(op, ast.Pow):
            b = self.ev(n.left, env)
            if not (isinstance(n.right, ast.Constant) and isinstance(n.right.value, int) and not isinstance(n.right.value, bool)
                    and 0 <= n.right.value <= 64):
                self.fail(n, "exponent of ** must be a literal natural number")
            if not isinstance(b, (Rv, PS)):
                return self.pow_other(b, n.right.value, n)
            return mk_real(f"({b.t} ^ {n.right.value})", shape_of(b))
        a, b = self.ev(n.left, env), self.ev(n.right, env)
        if isinstance(op, (ast.BitAnd, ast.BitOr)):
            return self.logic("and" if isinstance(op, ast.BitAnd) else "or", a, b, n)
        sym = {ast.Add: "+", ast.Sub: "-", ast.Mult: "*", ast.Div: "/"}.get(type(op))
        if sym is None:
            return self.binop_other(op, a, b, n)
        if isinstance(a, (Rv, PS)) and isinstance(b, (Rv, PS)):
            return mk_real(f"({a.t} {sym} {b.t})", self.join(a, b, n))
        return self.binop_other(op, a, b, n)

    def pow_other(self, b, k, n):
        self.fail(n, f"** on a {b.kind} value")

    def binop_other(self, op, a, b, n):
        # bool -> float promotion:  real * test  (the survival mask)
        if isinstance(op, ast.Mult) and isinstance(a, (Rv, PS)) and isinstance(b, Bv):
            return mk_real(f"({a.t} * {ifc(b.c, '1', '0')})", self.join(a, b, n))
        if isinstance(op, ast.Mult) and isinstance(a, Bv) and isinstance(b, (Rv, PS)):
            return mk_real(f"({ifc(a.c, '1', '0')} * {b.t})", self.join(a, b, n))
        self.fail(n, f"unsupported binary operation {type(op).__name__} on {a.kind} and {b.kind}")

    def logic(self, op, a, b, n):
        if not (isinstance(a, Bv) and isinstance(b, Bv)):
            self.fail(n, f"logical {op} of {a.kind} and {b.kind}")
        return Bv((op, a.c, b.c), self.join(a, b, n))

    def e_BoolOp(self, n, env):
        vs = [self.ev(x, env) for x in n.values]
        out = vs[0]
        for v in vs[1:]:
            for x in (out, v):
                if not (isinstance(x, Bv) and x.shape in ("const", "batch")):
                    self.fail(n, "`and` / `or` of something that is not a scalar test")
            out = Bv(("and" if isinstance(n.op, ast.And) else "or", out.c, v.c), self.join(out, v, n))
        return out

    def e_Compare(self, n, env):
        if len(n.ops) != 1:
            self.fail(n, "chained comparison")
        op = {ast.Eq: "eq", ast.NotEq: "ne", ast.Gt: "gt", ast.GtE: "ge", ast.Lt: "lt", ast.LtE: "le"}.get(type(n.ops[0]))
        if op is None:
            return self.compare_other(n, env)
        a, b = self.ev(n.left, env), self.ev(n.comparators[0], env)
        if isinstance(a, (Rv, PS)) and isinstance(b, (Rv, PS)):
            return Bv((op, a.t, b.t), self.join(a, b, n))
        return self.compare_mixed(op, a, b, n)

    def compare_other(self, n, env):
        self.fail(n, f"unsupported comparison {type(n.ops[0]).__name__}")

    def compare_mixed(self, op, a, b, n):
        self.fail(n, f"comparison of {a.kind} and {b.kind}")

    def e_Subscript(self, n, env):
        v = self.ev(n.value, env)
        s = n.slice
        idx = None
        if isinstance(s, ast.Tuple) and s.elts and isinstance(s.elts[0], ast.Constant) and s.elts[0].value is Ellipsis:
            idx = []
            for e in s.elts[1:]:
                if not (isinstance(e, ast.Constant) and isinstance(e.value, int) and not isinstance(e.value, bool) and 0 <= e.value <= 6):
                    idx = None
                    break
                idx.append(e.value)
        if isinstance(v, P7) and idx is not None and len(idx) == 1:
            return PS(f"(c{idx[0]} {v.t})")
        if isinstance(v, V7v) and idx is not None and len(idx) == 1:
            return Rv(f"(c{idx[0]} {v.t})", "batch")
        if isinstance(v, M7v) and idx is not None and len(idx) == 2:
            return Rv(f"(c{idx[1]} (c{idx[0]} {v.t}))", "batch")
        if isinstance(v, Rv) and v.shape == "batch" and self.gathers is not None:
            c = self.ev(s, env)
            if isinstance(c, Bv) and c.shape == "batch":
                self.gathers.append(c.c)
                return Rv(v.t, "batch")
        return self.subscript_other(v, n, env)

    def subscript_other(self, v, n, env):
        self.fail(n, f"unsupported subscript of a {v.kind} value")

    def e_Tuple(self, n, env):
        return Tup([self.ev(e, env) for e in n.elts])

    def e_Call(self, n, env):
        f = n.func
        if isinstance(f, ast.Attribute) and isinstance(f.value, ast.Name) and f.value.id == "torch" and "torch" not in env:
            self.mod.global_origin("torch", n)
            return self.torch_call(f.attr, n, env)
        if isinstance(f, ast.Attribute):
            v = self.ev(f.value, env)
            return self.method_call(v, f.attr, n, env)
        if isinstance(f, ast.Name) and f.id not in env:
            callee = self.tr.lookup(None, f.id)
            if callee is None:
                return self.call_other(n, env)
            self.mod.global_origin(f.id, n)
            return self.call_fn(callee, n.args, {k.arg: k.value for k in n.keywords}, n, env)
        self.fail(n, "unsupported call")

    def call_other(self, n, env):
        self.fail(n, f"call of {n.func.id}, which is not a translated function")

    def reduce_sum(self, v, n, kws, env):
        keep = False
        if not any(kw.arg == "dim" for kw in kws):
            self.fail(n, "sum without `dim` reduces over ALL axes (the batch axes of a vectorised beam included), not over the particle axis")
        for kw in kws:
            if kw.arg == "dim":
                if not self.is_dim(kw.value, env):
                    self.fail(n, "sum: `dim` must be the function's own dim parameter or the literal -1 (the particle axis)")
            elif kw.arg == "keepdim":
                if not (isinstance(kw.value, ast.Constant) and isinstance(kw.value.value, bool)):
                    self.fail(n, "sum: keepdim must be a literal")
                keep = kw.value.value
            else:
                self.fail(n, f"sum: unexpected keyword {kw.arg!r}")
        if not isinstance(v, PS):
            self.fail(n, f"sum of a value that does not extend along the particle axis (it is {v.kind}{'/' + v.shape if isinstance(v, Rv) else ''})")
        self.uses_l = True
        return Rv(f"(gsum (fun {IVAR} => {v.t}) l)", "batch1" if keep else "batch")

    def method_call(self, v, name, n, env):
        if name == "sum" and not n.args:
            return self.reduce_sum(v, n, n.keywords, env)
        if name == "unsqueeze" and len(n.args) == 1 and not n.keywords and ast.dump(n.args[0]) == "UnaryOp(op=USub(), operand=Constant(value=1))":
            if isinstance(v, Rv) and v.shape == "batch":
                return Rv(v.t, "batch1")
            if isinstance(v, Bv) and v.shape == "batch":
                return Bv(v.c, "batch1")
            return self.unsqueeze_other(v, n)
        self.fail(n, f"unsupported method call .{name}(..) on a {v.kind} value")

    def unsqueeze_other(self, v, n):
        self.fail(n, f".unsqueeze(-1) of a value of shape {shape_of(v) or v.kind} (only a batch-shaped value has a missing particle axis)")

    def call_fn(self, callee, args, kwargs, n, env):
        cs = callee["spec"]
        names, kinds = callee["pnames"], cs["params"]
        if None in kwargs:
            self.fail(n, "**kwargs in a call of a translated function")
        if len(args) > len(names) or any(isinstance(a, ast.Starred) for a in args):
            self.fail(n, "unexpected positional arguments")
        given = dict(zip(names, args))
        for k, v in kwargs.items():
            if k not in names or k in given:
                self.fail(n, f"unexpected or duplicate keyword {k!r}")
            given[k] = v
        out = []
        if callee["tiny"]:
            self.uses_tiny = True
            out.append("tiny")
        for a, kind in cs.get("attrs", []):
            mine = env.get("self", {}).get(a) if isinstance(env.get("self"), dict) else None
            if mine is None or self.attr_kind.get(a) != kind:
                self.fail(n, f"callee {cs['fn']} needs self.{a}, which the caller does not declare")
            out.append(self.attr_coq[a])
        for nm, kind in zip(names, kinds):
            if kind == "dim":
                if nm not in given:
                    self.fail(n, f"call of {cs['fn']} without `{nm}`: the reduction axis must be given (-1, the particle axis)")
                if not self.is_dim(given[nm], env) or (isinstance(given[nm], ast.Constant) and given[nm].value is None):
                    self.fail(n, f"argument {nm!r} of {cs['fn']} must be the literal -1 or the caller's own dim parameter")
                continue
            if nm not in given:
                self.fail(n, f"missing argument {nm!r}")
            v = self.ev(given[nm], env)
            if kind == "S":
                if not isinstance(v, PS):
                    self.fail(given[nm], f"argument {nm} of {cs['fn']} must extend along the particle axis (it is {v.kind})")
                out.append(f"(fun {IVAR} => {v.t})")
            elif kind == "R":
                out.append(self.sc(v, given[nm], f"argument {nm}"))
            else:
                self.fail(n, f"unsupported parameter kind {kind}")
        if callee["uses_l"]:
            self.uses_l = True
            out.append("l")
        t = "(" + " ".join([callee["coq"]] + out) + ")"
        if callee["ret"] == "R":
            return Rv(t, "batch")
        if callee["ret"] == "S":
            return PS(f"({t} {IVAR})")
        self.fail(n, f"call of a function returning {callee['ret']}")

    def torch_call(self, name, n, env):
        args = n.args
        if any(isinstance(a, ast.Starred) for a in args):
            self.fail(n, f"starred argument of torch.{name}")
        if name == "sum":
            if len(args) != 1:
                self.fail(n, "torch.sum takes one positional argument here")
            return self.reduce_sum(self.ev(args[0], env), n, n.keywords, env)
        if name in ("sqrt", "abs"):
            if len(args) != 1 or n.keywords:
                self.fail(n, f"torch.{name} takes one argument here")
            v = self.ev(args[0], env)
            return mk_real(f"({ {'abs': 'Rabs'}.get(name, name)} {self.real(v, args[0], 'argument of torch.' + name)})", shape_of(v))
        if name == "clamp_min":
            if len(args) != 2 or n.keywords:
                self.fail(n, "torch.clamp_min takes two positional arguments here")
            a, b = self.ev(args[0], env), self.ev(args[1], env)
            return mk_real(f"(Rmax {self.real(a, args[0])} {self.real(b, args[1])})", self.join(a, b, n))
        if name == "finfo":
            if len(args) != 1 or n.keywords or not isinstance(self.ev(args[0], env), DType):
                self.fail(n, "torch.finfo: only finfo(<real value>.dtype) is understood")
            return Finfo()
        if name == "ones_like":
            if len(args) != 1 or n.keywords:
                self.fail(n, "torch.ones_like takes one argument here")
            v = self.ev(args[0], env)
            if not (isinstance(v, Rv) and v.shape == "batch"):
                self.fail(n, "torch.ones_like of something that is not a batch-shaped real")
            return Rv("1", "batch", fresh=True)
        if name in ("logical_and", "logical_or"):
            if len(args) != 2 or n.keywords:
                self.fail(n, f"torch.{name} takes two arguments")
            return self.logic("and" if name == "logical_and" else "or", self.ev(args[0], env), self.ev(args[1], env), n)
        if name in ("all", "any"):
            if len(args) != 1 or n.keywords:
                self.fail(n, f"torch.{name} takes one argument here")
            v = self.ev(args[0], env)
            if not (isinstance(v, Bv) and v.shape == "batch"):
                self.fail(n, f"torch.{name} of something that is not a batch-shaped test")
            return Bv(v.c, "batch")
        return self.torch_other(name, n, env)

    def torch_other(self, name, n, env):
        self.fail(n, f"torch.{name} is outside the translated fragment")

    # -- statements
    def block(self, stmts, env, cont):
        if stmts:
            s, rest = stmts[0], stmts[1:]
            if isinstance(s, ast.Assert):
                self.asserts += 1
                c = self.cond(self.ev(s.test, env), s.test)
                if s.msg is not None and not (isinstance(s.msg, ast.Constant) and isinstance(s.msg.value, str)):
                    self.fail(s, "assert message must be a string literal")
                r = self.block(rest, env, cont)
                return f"({propc(c)} /\\ {r})" if self.mode == "pre" else r
            if isinstance(s, ast.If):
                c = self.cond(self.ev(s.test, env), s.test)
                k = (lambda e: self.block(rest, e, cont))
                if not rest and cont is None:
                    k = None
                return ifc(c, self.block(s.body, env, k), self.block(s.orelse, env, k))
        return super().block(stmts, env, cont)

    def beam_param(self, nm, coq_params):
        self.mod.fail(self.fnode, "beam-valued parameter outside the aperture / BPM reading")

    def bind(self, target, v, env, node):
        env = dict(env)
        if isinstance(target, ast.Name):
            if target.id == "self":
                self.fail(node, "assignment to self")
            if isinstance(v, (Meta, Dim, DType, Finfo, Bv)):
                env[target.id] = v
                return "", env
            if isinstance(v, Rv):
                nm = self.fresh(target.id)
                env[target.id] = Rv(nm, v.shape, v.fresh)
                return f"let {nm} := {v.t} in\n  ", env
            if isinstance(v, PS):
                nm = self.fresh(target.id)
                env[target.id] = PS(f"({nm} {IVAR})")
                return f"let {nm} := (fun {IVAR} => {v.t}) in\n  ", env
            return self.bind_other(target, v, env, node)
        self.fail(node, "unsupported assignment target")

    def bind_other(self, target, v, env, node):
        self.fail(node, f"assignment of a {v.kind} value to a name")

    def ret_value(self, v, node):
        if isinstance(v, Rv) and v.shape in ("batch", "const"):
            kind, t = "R", v.t
        elif isinstance(v, PS):
            kind, t = "S", f"(fun {IVAR} => {v.t})"
        else:
            return self.ret_other(v, node)
        if self.ret_kind is None:
            self.ret_kind = kind
        elif self.ret_kind != kind:
            self.fail(node, "return statements of different kinds")
        return t

    def ret_other(self, v, node):
        self.fail(node, f"return of a {v.kind}{'/' + v.shape if isinstance(v, Rv) else ''} value")

    def sub_assign(self, s, tg, rest, env, cont):
        """r[c1] = f(g[c2]) on a tensor r made by torch.ones_like in this function (one-element idiom)."""
        if not isinstance(tg.value, ast.Name) or tg.value.id not in env:
            self.fail(s, "unsupported subscript assignment")
        name = tg.value.id
        cur = env[name]
        if not (isinstance(cur, Rv) and cur.fresh and cur.shape == "batch"):
            self.fail(s, f"in-place write into {name!r}, which was not created by torch.ones_like in this function")
        if sum(1 for v in env.values() if v is cur) != 1:
            self.fail(s, f"in-place write into {name!r}, which is aliased")
        c1 = self.ev(tg.slice, env)
        if not (isinstance(c1, Bv) and c1.shape == "batch"):
            self.fail(s, "masked write: the index is not a batch-shaped test")
        self.gathers = []
        try:
            e = self.ev(s.value, env)
            gs = self.gathers
        finally:
            self.gathers = None
        et = self.sc(e, s.value, "value of a masked write")
        env = dict(env)
        nm = self.fresh(name)
        env[name] = Rv(nm, "batch", True)
        if gs:
            self.asserts += 1
        r = self.block(rest, env, cont)
        if self.mode == "pre":
            pre = " /\\ ".join(f"({propc(c1.c)} <-> {propc(g)})" for g in gs)
            return f"let {nm} := {ifc(c1.c, et, cur.t)} in\n  " + (f"({pre} /\\ {r})" if gs else r)
        return f"let {nm} := {ifc(c1.c, et, cur.t)} in\n  " + r

    # -- signature
    def check_abstract(self, cb, a, cnode):
        defs = cb.get(a, [])
        if len(defs) != 1 or defs[0][0] != "def":
            self.mod.fail(cnode, f"Beam.{a} is expected to be declared exactly once (abstract property)")
        st = defs[0][2]
        body = [x for x in st.body if not (isinstance(x, ast.Expr) and isinstance(x.value, ast.Constant))]
        if ([ast.dump(d) for d in st.decorator_list] != ABSPROP or len(body) != 1
                or ast.dump(body[0]) != "Raise(exc=Name(id='NotImplementedError', ctx=Load()))"):
            self.mod.fail(st, f"Beam.{a} is no longer an abstract property raising NotImplementedError: the Twiss getters "
                              "would not read the subclass's value")

    def coq_name(self):
        spec = self.spec
        return spec.get("coq") or ("gen_" + (f"{spec['cls']}_" if spec["cls"] else "") + spec["fn"])

    def translate(self):
        spec, mod = self.spec, self.mod
        if spec["cls"]:
            cnode, f, cb, decs = mod.find_method(spec["cls"], spec["fn"], spec.get("prop"), spec["bases"])
            if decs != (PROP if spec.get("prop") else []):
                mod.fail(f, f"unexpected decorators on {spec['cls']}.{spec['fn']}: {decs}")
            for nm in spec.get("must_not_define", []):
                if nm in cb:
                    mod.fail(cb[nm][0][2], f"{spec['cls']} redefines {nm!r}: the Beam transcription of the Twiss getters no longer applies to it")
        else:
            cnode, f, cb = mod.find_function(None, spec["fn"])
        self.fnode, self.class_bind = f, (cb if spec["cls"] else {})
        a = f.args
        if a.vararg or a.kwarg or a.kwonlyargs or a.posonlyargs:
            mod.fail(f, "unsupported parameter syntax")
        pos = [x.arg for x in a.args]
        defaults = [None] * (len(pos) - len(a.defaults)) + list(a.defaults)
        env, coq_params = {}, []
        self.attr_kind = {}
        if spec["cls"]:
            if not pos or pos[0] != "self":
                mod.fail(f, "method without self")
            pos, defaults = pos[1:], defaults[1:]
            attrs = {}
            for nm, kind in spec["attrs"]:
                if kind == "absR":
                    self.check_abstract(cb, nm, cnode)
                elif nm in cb:
                    mod.fail(cb[nm][0][2], f"attribute self.{nm} is declared a plain parameter but the class body binds {nm!r}")
                c = self.fresh(nm)
                self.attr_coq[nm], self.attr_kind[nm] = c, kind
                attrs[nm], ty = self.attr_value(c, kind)
                coq_params.append((c, ty))
            env["self"] = attrs
        if len(pos) != len(spec["params"]):
            mod.fail(f, f"signature changed: {len(pos)} parameters, expected {len(spec['params'])}")
        for nm, d, kind in zip(pos, defaults, spec["params"]):
            if kind == "dim":
                if not (isinstance(d, ast.Constant) and d.value is None):
                    mod.fail(f, f"signature changed: default of parameter {nm!r}")
                env[nm] = Dim()
                continue
            if d is not None:
                mod.fail(f, f"signature changed: default of parameter {nm!r}")
            if kind == "beam":
                env[nm] = self.beam_param(nm, coq_params)
                continue
            c = self.fresh(nm)
            env[nm], ty = self.attr_value(c, kind)
            coq_params.append((c, ty))
        self.pnames = pos
        env.update(self.extra_env(f, pos))
        body = self.block(f.body, env, None)
        coq = self.coq_name()
        sample = self.uses_l or self.ret_kind == "S" or any(ty.startswith("S ->") for _, ty in coq_params)
        binders = (["{S : Type}"] if sample else []) + (["(tiny : R)"] if self.uses_tiny else []) + self.lead_binders() \
            + [f"({n} : {t})" for n, t in coq_params] + (["(l : list S)"] if self.uses_l else [])
        binders = " ".join(binders)
        rty = {"R": "R", "S": "S -> R"}.get(self.ret_kind) or self.ret_type()
        text = f"Definition {coq} {binders} : {rty} :=\n  {body}.\n"
        if self.asserts:
            saved = self.used
            self.used = {IVAR, "l", "S", "tiny", "shape"} | set(n for n, _ in coq_params)
            self.mode = "pre"
            pre = self.block(f.body, env, None)
            self.mode = "value"
            self.used = saved
            text += f"\nDefinition {coq}_pre {binders} : Prop :=\n  {pre}.\n"
        return coq, text, f

    def lead_binders(self):
        return []

    def ret_type(self):
        raise AssertionError(self.ret_kind)

    def extra_env(self, f, pos):
        return {}

    def attr_value(self, c, kind):
        if kind in ("R", "absR"):
            return Rv(c, "batch"), "R"
        if kind == "S":
            return PS(f"({c} {IVAR})"), "S -> R"
        if kind == "S7":
            return P7(f"({c} {IVAR})"), "S -> V7 R"
        if kind == "V7":
            return V7v(c), "V7 R"
        if kind == "M7":
            return M7v(c), "M7 R"
        raise AssertionError(kind)


# ---------------------------------------------------------------------------------------------- Aperture.track
AP_GUARD = ast.dump(ast.parse("if not (isinstance(incoming, ParticleBeam) and self.is_active):\n    return incoming").body[0])
AP_SHAPES = {"rectangular": "Rectangular", "elliptical": "Elliptical"}
FLIP = {"lt": "gt", "gt": "lt", "le": "ge", "ge": "le"}
BEAM_PASS = ("particles", "energy", "particle_charges")


class ApFn(SFn):
    def __init__(self, tr, spec, mod):
        super().__init__(tr, spec, mod)
        self.guard_seen = False
        self.shape_asserted = False

    def attr_value(self, c, kind):
        if kind == "xR":
            return Xv(c, "batch"), "xR"
        if kind == "shape":
            return ShapeV(), "apshape"
        return super().attr_value(c, kind)

    def beam_param(self, nm, coq_params):
        attrs = {}
        for a, kind in (PART, SURV):
            c = self.fresh(a)
            self.attr_coq[a], self.attr_kind[a] = c, kind
            attrs[a], ty = SFn.attr_value(self, c, kind)
            coq_params.append((c, ty))
        return BeamObj(attrs)

    def obj_attr(self, v, n, env):
        if isinstance(v, BeamObj):
            if n.attr in v.attrs:
                return v.attrs[n.attr]
            if n.attr in BEAM_PASS:
                return Pass(n.attr)
            callee = self.tr.lookup("ParticleBeam", n.attr)
            if callee is not None and callee["spec"].get("prop"):
                return self.call_fn(callee, [], {}, n, {"self": v.attrs})
            self.fail(n, f"incoming.{n.attr} is neither a buffer nor a translated getter of ParticleBeam")
        return super().obj_attr(v, n, env)

    def e_Attribute(self, n, env):
        if isinstance(n.value, ast.Name) and n.value.id == "self" and n.attr == "shape" and "shape" in env.get("self", {}):
            known = env.get("__shape__")
            return Str(known) if known else ShapeV()
        return super().e_Attribute(n, env)

    def neg_other(self, v, n):
        if isinstance(v, Xv):
            return Xv(f"(xopp {v.t})", v.shape)
        return super().neg_other(v, n)

    def pow_other(self, b, k, n):
        if isinstance(b, Xv) and k >= 1:
            return Xv(f"(xpow {b.t} {k})", b.shape)
        return super().pow_other(b, k, n)

    def unsqueeze_other(self, v, n):
        if isinstance(v, Xv) and v.shape == "batch":
            return Xv(v.t, "batch1")
        return super().unsqueeze_other(v, n)

    def binop_other(self, op, a, b, n):
        if isinstance(op, ast.Div) and isinstance(a, (Rv, PS)) and isinstance(b, Xv):
            return mk_real(f"(xdiv {a.t} {b.t})", self.join(a, b, n))
        return super().binop_other(op, a, b, n)

    def compare_mixed(self, op, a, b, n):
        if op in FLIP:
            if isinstance(a, (Rv, PS)) and isinstance(b, Xv):
                return Bv(("x" + op, a.t, b.t), self.join(a, b, n))
            if isinstance(a, Xv) and isinstance(b, (Rv, PS)):
                return Bv(("x" + FLIP[op], b.t, a.t), self.join(a, b, n))
        if op in ("eq", "ne"):
            for x, y in ((a, b), (b, a)):
                if isinstance(x, ShapeV) and isinstance(y, Str):
                    if y.s not in AP_SHAPES:
                        self.fail(n, f"unknown aperture shape {y.s!r}")
                    return ShTest(y.s, op == "ne")
            if isinstance(a, Str) and isinstance(b, Str):          # self.shape under a branch where it is known
                return ShTest(None, (a.s == b.s) == (op == "ne"))
        return super().compare_mixed(op, a, b, n)

    def compare_other(self, n, env):
        if isinstance(n.ops[0], ast.In) and isinstance(self.ev(n.left, env), ShapeV) and isinstance(n.comparators[0], ast.List):
            names = []
            for e in n.comparators[0].elts:
                if not (isinstance(e, ast.Constant) and isinstance(e.value, str)):
                    self.fail(n, "shape membership: literal strings expected")
                names.append(e.value)
            return ShIn(names)
        return super().compare_other(n, env)

    def call_other(self, n, env):
        if n.func.id != "ParticleBeam":
            return super().call_other(n, env)
        self.mod.global_origin("ParticleBeam", n)
        if n.args or any(k.arg is None for k in n.keywords):
            self.fail(n, "ParticleBeam(..) must be called with keywords only")
        seen, surv = set(), None
        for kw in n.keywords:
            if kw.arg in seen:
                self.fail(n, f"duplicate keyword {kw.arg!r}")
            seen.add(kw.arg)
            if kw.arg in BEAM_PASS:
                v = self.ev(kw.value, env)
                ok = (isinstance(v, Pass) and v.attr == kw.arg) or (kw.arg == "particles" and isinstance(v, P7) and isinstance(kw.value, ast.Attribute)
                                                                    and isinstance(self.ev(kw.value.value, env), BeamObj) and kw.value.attr == "particles")
                if not ok:
                    self.fail(kw.value, f"keyword {kw.arg!r} of the outgoing ParticleBeam is not incoming.{kw.arg} passed through unchanged")
            elif kw.arg == "survival_probabilities":
                surv = self.ev(kw.value, env)
                if not isinstance(surv, PS):
                    self.fail(kw.value, f"new survival probabilities do not extend along the particle axis (they are {surv.kind})")
            elif kw.arg in ("device", "dtype"):
                if not isinstance(self.ev(kw.value, env), (Meta, DType)):
                    self.fail(kw.value, f"keyword {kw.arg} is not a device/dtype bookkeeping value")
            else:
                self.fail(n, f"unexpected keyword {kw.arg!r} of ParticleBeam(..)")
        if surv is None or not set(BEAM_PASS) <= seen:
            self.fail(n, "ParticleBeam(..): particles / energy / particle_charges / survival_probabilities must all be given")
        return NewBeam(surv)

    def ret_other(self, v, node):
        if isinstance(v, NewBeam):
            if not self.guard_seen:
                self.fail(node, "the guard `if not (isinstance(incoming, ParticleBeam) and self.is_active): return incoming` is missing")
            if self.ret_kind not in (None, "S"):
                self.fail(node, "return statements of different kinds")
            self.ret_kind = "S"
            return f"(fun {IVAR} => {v.surv.t})"
        return super().ret_other(v, node)

    def block(self, stmts, env, cont):
        if stmts:
            s, rest = stmts[0], stmts[1:]
            if isinstance(s, ast.If) and ast.dump(s) == AP_GUARD:
                body = [x for x in self.fnode.body if not (isinstance(x, ast.Expr) and isinstance(x.value, ast.Constant))]
                if not body or body[0] is not s:
                    self.fail(s, "the dispatch guard must be the first statement")
                self.guard_seen = True
                return self.block(rest, env, cont)
            if isinstance(s, ast.Assert):
                t = self.ev(s.test, env)
                if isinstance(t, ShIn):
                    if sorted(t.names) != sorted(AP_SHAPES):
                        self.fail(s, f"the shape assertion admits {t.names}, expected exactly {sorted(AP_SHAPES)}")
                    env = dict(env)
                    env["__shapes_ok__"] = Meta()
                    return self.block(rest, env, cont)
            if isinstance(s, ast.If):
                t = self.ev(s.test, env)
                if isinstance(t, ShTest):
                    k = (lambda e: self.block(rest, e, cont))
                    if not rest and cont is None:
                        k = None
                    if t.name is None:                   # shape known on this path: the test is decided
                        return self.block(s.orelse if t.neg else s.body, env, k)
                    if "__shapes_ok__" not in env:
                        self.fail(s, "branch on self.shape before the assertion that it is 'rectangular' or 'elliptical'")
                    arms = []
                    for name, ctor in AP_SHAPES.items():
                        e2 = dict(env)
                        e2["__shape__"] = name
                        taken = (name == t.name) != t.neg
                        arms.append(f"| {ctor} => {self.block(s.body if taken else s.orelse, e2, k)}")
                    return f"(match {self.attr_coq['shape']} with {' '.join(arms)} end)"
        return super().block(stmts, env, cont)


SPECS.append(dict(file=APF, cls="Aperture", fn="track", prop=False, attrs=[("x_max", "xR"), ("y_max", "xR"), ("shape", "shape")], params=["beam"],
                  bases=["Name(id='Element', ctx=Load())"], translator=ApFn))
REEXPORTS.append(("cheetah/particles/__init__.py", "ParticleBeam", ".particle_beam"))


# ---------------------------------------------------------------------------------------------- driver
HEADER = ("(** GENERATED by harness/translate_stats.py from the source text of /repo -- do not edit.\n"
          "    Sample reading, shape tags and tables: see the docstring of harness/translate_stats.py.\n"
          "    The check regenerates this file on every run and compiles Gen/StatsGenEquiv.v against the fresh copy. *)\n"
          "From Coq Require Import Reals List.\nFrom Cheetah Require Import Base.Mat Optics.Maps Gen.StatsGenBase.\nOpen Scope R_scope.\n\n")


class STranslator:
    def __init__(self, repo, specs=None):
        self.repo = Path(repo)
        self.specs = SPECS if specs is None else specs
        self.mods = {}
        self.done = {}

    def module(self, rel):
        if rel not in self.mods:
            self.mods[rel] = SModule(self.repo, rel)
        return self.mods[rel]

    def lookup(self, cls, fn):
        return self.done.get((cls, fn))

    def check_reexports(self):
        for rel, name, src in REEXPORTS:
            m = self.module(rel)
            b = m.bind.get(name, [])
            if len(b) != 1 or b[0][0] != "from" or b[0][1] != src:
                raise TranslateError(f"{rel} does not re-export {name} from {src} exactly once", m.rel, 0)

    def fn_class(self, spec):
        return spec.get("translator", SFn)

    def run(self):
        self.check_reexports()
        out, info = [], []
        for spec in self.specs:
            mod = self.module(spec["file"])
            ft = self.fn_class(spec)(self, spec, mod)
            coq, text, f = ft.translate()
            first, last, seg = mod.segment(f)
            self.done[(spec["cls"], spec["fn"])] = dict(spec=spec, coq=coq, ret=ft.ret_kind, pnames=ft.pnames, uses_l=ft.uses_l, tiny=ft.uses_tiny)
            out.append(text)
            info.append(dict(function=(spec["cls"] + "." if spec["cls"] else "") + spec["fn"], file=spec["file"], first_line=first, last_line=last,
                             source_sha256=hashlib.sha256(seg.encode()).hexdigest(), coq_name=coq,
                             coq_sha256=hashlib.sha256(text.encode()).hexdigest(), has_precondition=bool(ft.asserts)))
        return HEADER + "\n".join(out), info


def locate(repo):
    """Only locate the functions of SPECS (no translation): [(qualified name, file, first_line, last_line, sha256)]."""
    tr, out = STranslator(repo), []
    for spec in tr.specs:
        mod = tr.module(spec["file"])
        if spec["cls"]:
            _, f, _, _ = mod.find_method(spec["cls"], spec["fn"], spec.get("prop"), spec["bases"])
        else:
            _, f, _ = mod.find_function(None, spec["fn"])
        first, last, seg = mod.segment(f)
        out.append(((spec["cls"] + "." if spec["cls"] else "") + spec["fn"], spec["file"], first, last, hashlib.sha256(seg.encode()).hexdigest()))
    return out


def generate(repo):
    """Returns (coq_text, info list).  Raises TranslateError."""
    return STranslator(repo).run()


if __name__ == "__main__":
    repo = sys.argv[1] if len(sys.argv) > 1 else "/repo"
    try:
        text, info = generate(repo)
    except TranslateError as ex:
        print("TRANSLATOR FAILED:", ex)
        sys.exit(2)
    if len(sys.argv) > 2:
        Path(sys.argv[2]).write_text(text)
    else:
        print(text)
