"""Self-test of the source-to-Coq translator stage for the beam statistics / diagnostics
(harness/translate_stats.py, translate_stage.translator_obligation_stats).

Copies /repo (without .git) to a scratch directory under /tmp (removed afterwards), points VERIF_REPO at the copy
and runs translator_obligation_stats on
  * the unchanged copy                                   -> must be ok
  * one-line SEMANTIC mutations of translated functions  -> must be translator_failed or equivalence_broken
  * COSMETIC edits                                       -> must be ok (the table also says whether the generated text is
                                                            byte-identical or differs only in bound names)
  * the seeded patches /verif/seeded/{C17,C06,C10,C20}-*/patch.diff: reports which touch a translated function and
    whether the stage notices them.
Usage:  PYTHONPATH=/verif/harness /venv/bin/python harness/translate_stats_selftest.py [--only substring] [--no-seeded]
Exit status 0 iff every expectation holds.
"""
import os
import re
import shutil
import subprocess
import sys
import time
from pathlib import Path

SCRATCH = Path(f"/tmp/translate_stats_selftest_{os.getpid()}")
COPY = SCRATCH / "repo"
os.environ["VERIF_REPO"] = str(COPY)
sys.path.insert(0, str(Path(__file__).resolve().parent))
import common  # noqa: E402
import translate_stats  # noqa: E402
import translate_stage  # noqa: E402

ST, PB, BM, QB = "cheetah/utils/statistics.py", "cheetah/particles/particle_beam.py", "cheetah/particles/beam.py", "cheetah/particles/parameter_beam.py"
AP, SC, BP = "cheetah/accelerator/aperture.py", "cheetah/accelerator/screen.py", "cheetah/accelerator/bpm.py"
EMIT_X = '''        return torch.sqrt(
            torch.clamp_min(
                self.sigma_x**2 * self.sigma_px**2 - self.sigma_xpx**2,
                torch.finfo(self.sigma_x.dtype).tiny,
            )
        )
'''
EMIT_X_OUT = '''        return torch.clamp_min(
            torch.sqrt(self.sigma_x**2 * self.sigma_px**2 - self.sigma_xpx**2),
            torch.finfo(self.sigma_x.dtype).tiny,
        )
'''
MEAN1 = "    weighted_mean1 = torch.sum(input1 * weights, dim=dim) / torch.sum(weights, dim=dim)\n"
MEAN2 = "    weighted_mean2 = torch.sum(input2 * weights, dim=dim) / torch.sum(weights, dim=dim)\n"
MEANV = "    weighted_mean = torch.sum(input * weights, dim=dim) / torch.sum(weights, dim=dim)\n"

# (id, expectation, file, old, new, description)   expectation: "detect" | "ok" | "info"
MUTATIONS = [
    # ---- semantic: statistics.py
    ("S01", "detect", ST, "weighted_mean1 = torch.sum(input1 * weights, dim=dim)", "weighted_mean1 = torch.sum(input1, dim=dim)", "covariance: weights dropped in mean 1"),
    ("S02", "detect", ST, "weights**2", "weights", "covariance: weights**2 -> weights in the correction factor"),
    ("S03", "detect", ST, "    ) / (correction_factor)\n    return covariance", "    ) / (torch.sum(weights, dim=dim) - 1)\n    return covariance",
     "covariance: correction factor replaced by sum(w) - 1"),
    ("S04", "detect", ST, "* (input2 - weighted_mean2.unsqueeze(-1))", "* (input1 - weighted_mean2.unsqueeze(-1))", "covariance: input2 -> input1 in the second deviation"),
    ("S05", "detect", ST, "weights * (input - weighted_mean.unsqueeze(-1)) ** 2", "weights * (input - weighted_mean) ** 2", "variance: .unsqueeze(-1) dropped (wrong broadcast for batched beams)"),
    ("S06", "detect", ST, "weights * (input - weighted_mean.unsqueeze(-1)) ** 2", "(input - weighted_mean.unsqueeze(-1)) ** 2", "variance: weights dropped in the sum of squares"),
    ("S07", "detect", ST, "return torch.sqrt(unbiased_weighted_variance(input, weights, dim=dim))", "return unbiased_weighted_variance(input, weights, dim=dim)", "std: sqrt dropped"),
    ("S08", "detect", ST, "return torch.sqrt(unbiased_weighted_variance(input, weights, dim=dim))", "return torch.sqrt(unbiased_weighted_variance(input, weights, dim=0))", "std: reduces along another axis"),
    ("S09", "detect", ST, ("all", "correction_factor = torch.sum(weights, dim=dim) - torch.sum("), "correction_factor = torch.sum(weights, dim=dim) + torch.sum(", "correction factor: sign (both functions)"),
    ("S10", "detect", ST, "    covariance = torch.sum(", "    covariance = torch.mean(", "covariance: torch.sum -> torch.mean (outside the fragment)"),
    ("S11", "detect", ST, MEANV, MEANV.replace("torch.sum(weights, dim=dim)", "weights.shape[-1]"), "variance: mean divides by the number of particles"),
    ("S12", "detect", ST, "weighted_mean2.unsqueeze(-1)", "weighted_mean1.unsqueeze(-1)", "covariance: mean of input 1 subtracted from input 2"),
    ("S13", "detect", ST, "(input - weighted_mean.unsqueeze(-1)) ** 2", "(input - weighted_mean.unsqueeze(-1)) ** 3", "variance: exponent"),
    # ---- semantic: ParticleBeam getters
    ("S14", "detect", PB, "            (self.x * self.survival_probabilities), dim=-1", "            (self.x), dim=-1", "mu_x: survival weights dropped"),
    ("S15", "detect", PB, "            (self.px * self.survival_probabilities), dim=-1", "            (self.x * self.survival_probabilities), dim=-1", "mu_px reads x"),
    ("S16", "detect", PB, "            self.x, weights=self.survival_probabilities, dim=-1", "            self.px, weights=self.survival_probabilities, dim=-1", "sigma_x reads px"),
    ("S17", "detect", PB, "            self.x, self.px, weights=self.survival_probabilities, dim=-1", "            self.x, self.py, weights=self.survival_probabilities, dim=-1", "sigma_xpx: px -> py"),
    ("S18", "detect", PB, "        return self.particles[..., 0]", "        return self.particles[..., 1]", "x getter reads column 1"),
    ("S19", "detect", PB, "torch.sum(self.particle_charges * self.survival_probabilities, dim=-1)", "torch.sum(self.particle_charges, dim=-1)", "total_charge ignores losses"),
    ("S20", "detect", PB, "            (self.tau * self.survival_probabilities), dim=-1", "            (self.tau * self.survival_probabilities), dim=-2", "mu_tau: reduction along another axis"),
    ("S21", "detect", PB, "            self.y, weights=self.survival_probabilities, dim=-1", "            self.y, weights=self.particle_charges, dim=-1", "sigma_y weighted by the charges"),
    ("S22", "detect", PB, "    @property\n    def num_particles(self) -> int:", "    @property\n    def emittance_x(self):\n        return self.sigma_x\n\n    @property\n    def num_particles(self) -> int:",
     "ParticleBeam overrides emittance_x (the Beam transcription no longer applies)"),
    ("S23", "detect", PB, "            (self.py * self.survival_probabilities), dim=-1\n        ) / self.survival_probabilities.sum(dim=-1)",
     "            (self.py * self.survival_probabilities), dim=-1\n        ) / self.particle_charges.sum(dim=-1)", "mu_py normalised by the charges"),
    # ---- semantic: Beam Twiss getters
    ("S24", "detect", BM, EMIT_X, EMIT_X_OUT, "emittance_x: clamp moved outside the sqrt"),
    ("S25", "detect", BM, "return self.sigma_x**2 / self.emittance_x", "return self.sigma_px**2 / self.emittance_x", "beta_x: wrong operand"),
    ("S26", "detect", BM, "return self.sigma_y**2 / self.emittance_y", "return self.sigma_y**2 / self.emittance_x", "beta_y divides by emittance_x"),
    ("S27", "detect", BM, "return -self.sigma_xpx / self.emittance_x", "return self.sigma_xpx / self.emittance_x", "alpha_x: sign"),
    ("S28", "detect", BM, "self.sigma_y**2 * self.sigma_py**2 - self.sigma_ypy**2", "self.sigma_y**2 * self.sigma_py**2 + self.sigma_ypy**2", "emittance_y: sign"),
    ("S29", "detect", BM, "return self.emittance_x * self.relativistic_beta * self.relativistic_gamma", "return self.emittance_x * self.relativistic_beta", "normalized_emittance_x: gamma dropped"),
    ("S30", "detect", BM, "return self.energy / electron_mass_eV", "return self.energy * electron_mass_eV", "relativistic_gamma: inverted"),
    ("S31", "detect", BM, "            1 - 1 / (self.relativistic_gamma[self.relativistic_gamma > 0] ** 2)", "            1 + 1 / (self.relativistic_gamma[self.relativistic_gamma > 0] ** 2)", "relativistic_beta: sign"),
    ("S32", "detect", BM, "                torch.finfo(self.sigma_x.dtype).tiny,", "                1e-20,", "emittance_x: clamp constant"),
    ("S33", "detect", BM, "self.sigma_x**2 * self.sigma_px**2 - self.sigma_xpx**2", "self.sigma_x**2 * self.sigma_px - self.sigma_xpx**2", "emittance_x: exponent dropped"),
    ("S34", "detect", BM, "    def sigma_px(self) -> torch.Tensor:\n        raise NotImplementedError", "    def sigma_px(self) -> torch.Tensor:\n        return self.sigma_x",
     "Beam.sigma_px no longer abstract"),
    ("S35", "detect", BM, "relativistic_beta[torch.abs(self.relativistic_gamma) > 0] = torch.sqrt(", "relativistic_beta[torch.abs(self.relativistic_gamma) > 1] = torch.sqrt(", "relativistic_beta: guard"),
    # ---- semantic: ParameterBeam getters
    ("S36", "detect", QB, "self._cov[..., 0, 0], 1e-20", "self._cov[..., 0, 1], 1e-20", "ParameterBeam.sigma_x: index"),
    ("S37", "detect", QB, "self._cov[..., 1, 1], 1e-20", "self._cov[..., 1, 1], 1e-10", "ParameterBeam.sigma_px: clamp constant"),
    ("S38", "detect", QB, "        return self._cov[..., 0, 1]", "        return self._cov[..., 1, 1]", "ParameterBeam.sigma_xpx: index"),
    ("S39", "detect", QB, "        return self._mu[..., 2]", "        return self._mu[..., 3]", "ParameterBeam.mu_y: index"),
    ("S40", "detect", QB, "torch.sqrt(torch.clamp_min(self._cov[..., 2, 2], 1e-20))", "torch.sqrt(self._cov[..., 2, 2])", "ParameterBeam.sigma_y: clamp removed"),
    ("S41", "detect", QB, "torch.sqrt(torch.clamp_min(self._cov[..., 3, 3], 1e-20))", "torch.clamp_min(torch.sqrt(self._cov[..., 3, 3]), 1e-20)", "ParameterBeam.sigma_py: clamp outside sqrt"),
    # ---- semantic: Aperture.track
    ("A01", "detect", AP, "incoming.x < self.x_max.unsqueeze(-1)", "incoming.x <= self.x_max.unsqueeze(-1)", "Aperture: < -> <= in the rectangular mask"),
    ("A02", "detect", AP, "incoming.x > -self.x_max.unsqueeze(-1)", "incoming.x > self.x_max.unsqueeze(-1)", "Aperture: sign of the lower x bound dropped"),
    ("A03", "detect", AP, "incoming.y < self.y_max.unsqueeze(-1)", "incoming.y < self.x_max.unsqueeze(-1)", "Aperture: y compared with x_max (swapped half sizes)"),
    ("A04", "detect", AP, "            survived_mask = torch.logical_and(\n                torch.logical_and(\n                    incoming.x >",
     "            survived_mask = torch.logical_or(\n                torch.logical_and(\n                    incoming.x >", "Aperture: outer logical_and -> logical_or"),
    ("A05", "detect", AP, "incoming.x**2 / self.x_max.unsqueeze(-1) ** 2", "incoming.x**2 / self.x_max.unsqueeze(-1)", "Aperture: ellipse, exponent of x_max dropped"),
    ("A06", "detect", AP, ") <= 1.0", ") < 1.0", "Aperture: ellipse, <= -> <"),
    ("A07", "detect", AP, "+ incoming.y**2 / self.y_max.unsqueeze(-1) ** 2", "- incoming.y**2 / self.y_max.unsqueeze(-1) ** 2", "Aperture: ellipse, + -> -"),
    ("A08", "detect", AP, "survival_probabilities=incoming.survival_probabilities * survived_mask", "survival_probabilities=1.0 * survived_mask", "Aperture: incoming survival probabilities dropped"),
    ("A09", "detect", AP, "incoming.y > -self.y_max.unsqueeze(-1)", "incoming.x > -self.y_max.unsqueeze(-1)", "Aperture: x tested against the y bound"),
    ("A10", "detect", AP, 'if self.shape == "rectangular":', 'if self.shape != "rectangular":', "Aperture: shape test inverted"),
    ("A11", "detect", AP, "if not (isinstance(incoming, ParticleBeam) and self.is_active):", "if not (isinstance(incoming, ParticleBeam) or self.is_active):", "Aperture: dispatch guard changed"),
    ("A12", "detect", AP, "incoming.x < self.x_max.unsqueeze(-1)", "incoming.x < self.x_max", "Aperture: .unsqueeze(-1) dropped (wrong broadcast for vectorised half sizes)"),
    ("A13", "detect", AP, "+ incoming.y**2 / self.y_max", "+ incoming.x**2 / self.y_max", "Aperture: ellipse, x used in the y term"),
    ("A14", "detect", AP, "incoming.x**2 / self.x_max.unsqueeze(-1) ** 2", "incoming.x**4 / self.x_max.unsqueeze(-1) ** 4", "Aperture: ellipse exponents 2 -> 4"),
    ("A15", "detect", AP, "particles=incoming.particles,", "particles=incoming.particles * 1.0,", "Aperture: particles not passed through unchanged"),
    ("A16", "detect", AP, '        elif self.shape == "elliptical":', '        elif self.shape == "rectangular":', "Aperture: second branch tests the wrong shape"),
    # ---- cosmetic
    ("K11", "ok", AP, ("re", r"\bsurvived_mask\b"), "inside", "Aperture: local variable survived_mask renamed"),
    ("K12", "ok", AP, "        # Only apply aperture to particle beams and if the element is active\n", "        # dispatch\n\n", "Aperture: comment changed"),
    ("K13", "ok", AP, "            survival_probabilities=incoming.survival_probabilities * survived_mask,\n            device=incoming.particles.device,\n",
     "            device=incoming.particles.device,\n            survival_probabilities=incoming.survival_probabilities * survived_mask,\n", "Aperture: keywords of the outgoing beam reordered"),
    ("K01", "ok", ST, MEAN2, "    # mean of the second input\n\n" + MEAN2.rstrip("\n") + "  # weighted\n", "comments and blank lines"),
    ("K02", "ok", ST, "    Compute the unbiased weighted covariance of two tensors.\n", "    Unbiased weighted covariance (reworded docstring).\n", "docstring changed"),
    ("K03", "ok", ST, ("re", r"\bweighted_mean1\b"), "wm1", "local variable weighted_mean1 renamed"),
    ("K04", "ok", ST, MEANV, "    weighted_mean = (\n        torch.sum((input * weights), dim=dim)\n        / torch.sum(weights, dim=dim)\n    )\n", "reformatting (line breaks, redundant parentheses)"),
    ("K05", "ok", ST, MEAN1 + MEAN2, MEAN2 + MEAN1, "two independent assignments reordered"),
    ("K06", "ok", PB, "            self.x, weights=self.survival_probabilities, dim=-1", "            self.x, dim=-1, weights=self.survival_probabilities", "keyword arguments reordered"),
    ("K07", "ok", ST, "    covariance = torch.sum(", "    covariance: torch.Tensor = torch.sum(", "type annotation added to a local assignment"),
    ("K08", "ok", BM, '        """Beta function in x direction in meters."""\n        return self.sigma_x**2 / self.emittance_x',
     '        """Beta function (x), m."""\n        # sigma^2 / eps\n        return (self.sigma_x**2) / self.emittance_x', "docstring, comment, redundant parentheses in beta_x"),
    ("K09", "ok", ST, MEANV, MEANV.replace("torch.sum(weights, dim=dim)", "weights.sum(dim=dim)"), "torch.sum(w, dim) -> w.sum(dim) (method form)"),
    ("K10", "ok", QB, "        return self._cov[..., 0, 1]", "        sigma_xpx = self._cov[..., 0, 1]\n        return sigma_xpx", "result named before returning"),
    # ---- semantics-preserving refactorings beyond the required cosmetic classes (informational)
    ("I01", "info", ST, "weights**2", "weights * weights", "w**2 -> w * w (equal over R)"),
    ("I02", "info", ST, "weighted_mean1 = torch.sum(input1 * weights, dim=dim)", "weighted_mean1 = torch.sum(weights * input1, dim=dim)", "commuted product under a sum"),
    ("I03", "info", BM, "return -self.sigma_xpx / self.emittance_x", "return -(self.sigma_xpx / self.emittance_x)", "-(a / b) instead of (-a) / b"),
]


def apply_mutation(m):
    _, _, rel, old, new, _ = m
    p = COPY / rel
    src = p.read_text()
    if isinstance(old, tuple) and old[0] == "all":
        if src.count(old[1]) < 1:
            raise RuntimeError(f"text {old[1]!r} not found in {rel}")
        out = src.replace(old[1], new)
    elif isinstance(old, tuple):
        out, n = re.subn(old[1], new, src)
        if n == 0:
            raise RuntimeError(f"pattern {old[1]!r} not found in {rel}")
    else:
        if src.count(old) < 1:
            raise RuntimeError(f"text {old!r} not found in {rel}")
        out = src.replace(old, new, 1)
    p.write_text(out)
    return {rel: src}


def restore(backup):
    for rel, src in backup.items():
        p = COPY / rel
        if src is None:
            p.unlink(missing_ok=True)
        else:
            p.write_text(src)


def touched(base):
    try:
        now = translate_stats.locate(COPY)
    except translate_stats.TranslateError as ex:
        return [f"<{ex.reason}>"]
    b = {x[0]: x[4] for x in base}
    return [x[0] for x in now if b.get(x[0]) != x[4]]


def describe(r):
    if r["status"] == "ok":
        return "ok"
    if r["status"] == "translator_failed":
        return f"translator_failed  {r.get('file')}:{r.get('line')}  {str(r.get('reason'))[:90]}"
    if r["status"] == "equivalence_broken":
        return f"equivalence_broken  {r.get('lemma')}"
    return f"{r['status']}  {str(r.get('reason'))[:120]}"


def main():
    only = sys.argv[sys.argv.index("--only") + 1] if "--only" in sys.argv else None
    if SCRATCH.exists():
        shutil.rmtree(SCRATCH)
    SCRATCH.mkdir(parents=True)
    bad = 0
    try:
        shutil.copytree("/repo", COPY, ignore=shutil.ignore_patterns(".git", "__pycache__", "*.pyc"))
        assert common.REPO == COPY
        t0 = time.time()
        r0 = translate_stage.translator_obligation_stats()
        base = translate_stats.locate(COPY)
        print(f"{'BASE':5} {'ok':7} {describe(r0):60} unchanged copy of /repo   [{r0['wall_s']} s]")
        if r0["status"] != "ok":
            print(r0)
            return 1
        counts = {"detect": [0, 0], "ok": [0, 0], "info": [0, 0]}
        for m in MUTATIONS:
            if only and only not in m[0] and only not in m[5]:
                continue
            backup = apply_mutation(m)
            try:
                r = translate_stage.translator_obligation_stats()
                tch = touched(base)
            finally:
                restore(backup)
            exp = m[1]
            good = (r["status"] in ("translator_failed", "equivalence_broken")) if exp == "detect" else (r["status"] == "ok") if exp == "ok" else True
            if not tch and r["status"] != "translator_failed":      # (a translator failure shows by itself that the edit reached the fragment)
                good = False        # a mutation that does not reach a translated function tests nothing
                r = dict(r, status="mutation-missed-its-target", reason="the edit changed no translated function")
            bad += 0 if good else 1
            counts[exp][0] += 1
            counts[exp][1] += 1 if good else 0
            same = ""
            if r["status"] == "ok":
                same = "  (generated text identical)" if r.get("generated_sha256") == r0["generated_sha256"] else "  (generated text differs: proofs absorb it)"
            print(f"{m[0]:5} {exp:7} {'PASS' if good else 'FAIL'}  {describe(r) + same:100}  | {m[5]}  [{r['wall_s']} s]", flush=True)
        r1 = translate_stage.translator_obligation_stats()
        if r1["status"] != "ok" or r1["generated_sha256"] != r0["generated_sha256"]:
            print("FAIL: the scratch copy was not restored faithfully")
            bad += 1
        if "--no-seeded" not in sys.argv and not only:
            print("\nseeded patches:")
            seeded = sorted(p for p in (common.VERIF / "seeded").glob("C*-*/patch.diff") if p.parent.name[:3] in ("C17", "C06", "C10", "C20"))
            for pd in seeded:
                files = re.findall(r"^\+\+\+ b/(\S+)", pd.read_text(), flags=re.M)
                backup = {f: ((COPY / f).read_text() if (COPY / f).exists() else None) for f in files}
                pr = subprocess.run(["patch", "-p1", "-s", "--no-backup-if-mismatch", "-i", str(pd)], cwd=COPY, capture_output=True, text=True)
                try:
                    if pr.returncode != 0:
                        print(f"{pd.parent.name:6} patch does not apply: {pr.stdout[-200:]}")
                        bad += 1
                        continue
                    tch = touched(base)
                    r = translate_stage.translator_obligation_stats()
                finally:
                    restore(backup)
                    for junk in list(COPY.rglob("*.orig")) + list(COPY.rglob("*.rej")):
                        junk.unlink()
                if tch:
                    good = r["status"] in ("translator_failed", "equivalence_broken")
                    bad += 0 if good else 1
                    print(f"{pd.parent.name:6} touches {','.join(tch):45} {'DETECTED' if good else 'MISSED  '}  {describe(r)}", flush=True)
                else:
                    good = r["status"] == "ok"
                    bad += 0 if good else 1
                    print(f"{pd.parent.name:6} touches no translated function ({', '.join(files)}): stage {describe(r)}", flush=True)
        print(f"\nsemantic mutations detected {counts['detect'][1]}/{counts['detect'][0]}, cosmetic edits accepted {counts['ok'][1]}/{counts['ok'][0]}, "
              f"informational {counts['info'][0]}")
        print(f"self-test finished in {round(time.time() - t0, 1)} s: {'ALL EXPECTATIONS HOLD' if not bad else str(bad) + ' FAILED'}")
    finally:
        shutil.rmtree(SCRATCH, ignore_errors=True)
    return 1 if bad else 0


if __name__ == "__main__":
    sys.exit(main())
