"""Integer-valued lattices for the exact structural correspondence (C01, C08, ...).

Trees are plain dicts so that they can be generated, shrunk, stored as replay files, built
into real cheetah objects (`build`) and printed as Coq terms of Lattice/ZInst.v (`coq_elem`).

leaf  = {"kind": "map"|"ctm"|"marker"|"non", "name": str, "len": int,
         "a0": [[i,j,v],...], "a1": [[i,j,v],...]      # map / ctm (sparse, added to identity / zero)
         "dE": int, "k": int, "thr": int}               # non
seg   = {"kind": "seg", "name": str, "es": [...]}
beam  = {"type": "parts", "ps": [[7 ints]...], "E": int, "q": [...], "s": [...]}
      | {"type": "param", "mu": [7 ints], "cov": [[7x7 ints]], "E": int, "Q": int}
"""
import torch

from common import coq_list, coq_string, zlit

import cheetah
from cheetah.accelerator.element import Element

DT = torch.float64
LIM = 2 ** 52


class ZMap(Element):
    """Skippable test element whose integer transfer map depends on the entrance energy:
    transfer_map(E) = a0 + E * a1.  `track` is the inherited Element.track."""

    def __init__(self, a0, a1, length, name=None):
        super().__init__(name=name)
        self.register_buffer("a0", torch.as_tensor(a0, dtype=DT))
        self.register_buffer("a1", torch.as_tensor(a1, dtype=DT))
        self.register_buffer("length", torch.as_tensor(length, dtype=DT))

    def transfer_map(self, energy):
        return self.a0 + energy.unsqueeze(-1).unsqueeze(-1) * self.a1

    @property
    def is_skippable(self):
        return True

    @property
    def defining_features(self):
        return super().defining_features + ["a0", "a1", "length"]

    def split(self, resolution):
        return [self]

    def plot(self, ax, s, vector_idx=None):
        pass


class ZNon(Element):
    """Non-skippable test element: x += k*px^2, tau += dE, energy += dE, survival *= (x < thr)."""

    def __init__(self, dE, k, thr, length, name=None):
        super().__init__(name=name)
        self.register_buffer("dE", torch.as_tensor(dE, dtype=DT))
        self.register_buffer("k", torch.as_tensor(k, dtype=DT))
        self.register_buffer("thr", torch.as_tensor(thr, dtype=DT))
        self.register_buffer("length", torch.as_tensor(length, dtype=DT))

    def transfer_map(self, energy):
        raise NotImplementedError

    def track(self, incoming):
        if isinstance(incoming, cheetah.ParticleBeam):
            p = incoming.particles
            x = p[..., 0] + self.k.unsqueeze(-1) * p[..., 1] * p[..., 1]
            tau = p[..., 4] + self.dE.unsqueeze(-1)
            cols = torch.broadcast_tensors(x, p[..., 1], p[..., 2], p[..., 3], tau, p[..., 5], p[..., 6])
            newp = torch.stack(cols, dim=-1)
            surv = incoming.survival_probabilities * (newp[..., 0] < self.thr.unsqueeze(-1)).to(DT)
            return cheetah.ParticleBeam(newp, incoming.energy + self.dE, particle_charges=incoming.particle_charges,
                                        survival_probabilities=surv, dtype=DT)
        else:
            mu = incoming._mu
            x = mu[..., 0] + self.k * mu[..., 1] * mu[..., 1]
            tau = mu[..., 4] + self.dE
            cols = torch.broadcast_tensors(x, mu[..., 1], mu[..., 2], mu[..., 3], tau, mu[..., 5], mu[..., 6])
            newmu = torch.stack(cols, dim=-1)
            cov = incoming._cov
            bshape = torch.broadcast_shapes(newmu.shape[:-1], cov.shape[:-2])
            return cheetah.ParameterBeam(newmu.expand(*bshape, 7).clone(), cov.expand(*bshape, 7, 7).clone(),
                                         incoming.energy + self.dE, total_charge=incoming.total_charge, dtype=DT)

    @property
    def is_skippable(self):
        return False

    @property
    def defining_features(self):
        return super().defining_features + ["dE", "k", "thr", "length"]

    def split(self, resolution):
        return [self]

    def plot(self, ax, s, vector_idx=None):
        pass


# ------------------------------------------------------------------ dict <-> dense
def dense(sparse, base_identity):
    m = [[1 if (i == j and base_identity) else 0 for j in range(7)] for i in range(7)]
    for i, j, v in sparse:
        m[i][j] += v
    return m


def build(e):
    """dict tree -> real cheetah element"""
    k = e["kind"]
    if k == "seg":
        return cheetah.Segment([build(c) for c in e["es"]], name=e["name"])
    if k == "map":
        return ZMap(dense(e["a0"], True), dense(e["a1"], False), float(e["len"]), name=e["name"])
    if k == "ctm":
        return cheetah.CustomTransferMap(torch.tensor(dense(e["a0"], True), dtype=DT),
                                         length=torch.tensor(float(e["len"]), dtype=DT), name=e["name"])
    if k == "marker":
        return cheetah.Marker(name=e["name"])
    if k == "non":
        return ZNon(float(e["dE"]), float(e["k"]), float(e["thr"]), float(e["len"]), name=e["name"])
    raise ValueError(k)


def build_beam(b):
    if b["type"] == "parts":
        return cheetah.ParticleBeam(torch.tensor(b["ps"], dtype=DT), torch.tensor(float(b["E"]), dtype=DT),
                                    particle_charges=torch.tensor(b["q"], dtype=DT),
                                    survival_probabilities=torch.tensor(b["s"], dtype=DT), dtype=DT)
    return cheetah.ParameterBeam(torch.tensor(b["mu"], dtype=DT), torch.tensor(b["cov"], dtype=DT),
                                 torch.tensor(float(b["E"]), dtype=DT), total_charge=torch.tensor(float(b["Q"]), dtype=DT), dtype=DT)


class Inexact(Exception):
    pass


def _ints(t):
    t = t.detach()
    if not torch.all(torch.isfinite(t)) or torch.any(t != torch.round(t)) or torch.any(t.abs() >= LIM):
        raise Inexact()
    return t.to(torch.int64).tolist()


def observe_beam(b):
    """real beam -> dict (raises Inexact when values left the exactly representable integers)"""
    if isinstance(b, cheetah.ParticleBeam):
        return {"type": "parts", "ps": _ints(b.particles), "E": _ints(b.energy), "q": _ints(b.particle_charges),
                "s": _ints(b.survival_probabilities)}
    return {"type": "param", "mu": _ints(b._mu), "cov": _ints(b._cov), "E": _ints(b.energy), "Q": _ints(b.total_charge)}


# ------------------------------------------------------------------ Coq printers
def coq_sparse(sp):
    return coq_list([f"({i}%nat, {j}%nat, {zlit(v)})" for i, j, v in sp])


def coq_v7(v):
    return "(mk7 " + " ".join(zlit(x) for x in v) + ")"


def coq_m7(m):
    return "(mk7 " + " ".join(coq_v7(r) for r in m) + ")"


def coq_elem(e):
    k = e["kind"]
    if k == "seg":
        return f"(Seg {coq_string(e['name'])} {coq_list([coq_elem(c) for c in e['es']])})"
    if k == "map":
        kind = f"(KMap (sp zI {coq_sparse(e['a0'])}) (sp zZ {coq_sparse(e['a1'])}))"
    elif k == "ctm":
        kind = f"(KCtm (sp zI {coq_sparse(e['a0'])}))"
    elif k == "marker":
        kind = "KMarker"
    elif k == "non":
        kind = f"(KNon {zlit(e['dE'])} {zlit(e['k'])} {zlit(e['thr'])})"
    else:
        raise ValueError(k)
    ha = "true" if e.get("has_active") else "false"
    ac = "true" if e.get("active") else "false"
    return f"(Leaf (mkleaf {coq_string(e['name'])} {zlit(e['len'])} {kind} {ha} {ac}))"


def coq_beam(b):
    if b["type"] == "parts":
        return (f"(Parts {coq_list([coq_v7(p) for p in b['ps']])} {zlit(b['E'])} "
                f"{coq_list([zlit(x) for x in b['q']])} {coq_list([zlit(x) for x in b['s']])})")
    return f"(Param {coq_v7(b['mu'])} {coq_m7(b['cov'])} {zlit(b['E'])} {zlit(b['Q'])})"


# ------------------------------------------------------------------ generators
def gen_sparse(rng, n, lo=-2, hi=2, affine=True):
    out = []
    for _ in range(n):
        i = rng.randrange(6)
        j = rng.randrange(7 if affine else 6)
        v = rng.choice([x for x in range(lo, hi + 1) if x != 0])
        out.append([i, j, v])
    return out


def gen_leaf(rng, name, kinds=("map", "map", "ctm", "marker", "non")):
    k = rng.choice(kinds)
    e = {"kind": k, "name": name, "len": rng.choice([0, 0, 1, 2, 3])}
    if k == "map":
        e["a0"] = gen_sparse(rng, rng.randrange(0, 4))
        e["a1"] = gen_sparse(rng, rng.randrange(0, 3), -1, 1)
    elif k == "ctm":
        e["a0"] = gen_sparse(rng, rng.randrange(0, 4))
    elif k == "marker":
        e["len"] = 0
    elif k == "non":
        e.update(dE=rng.choice([0, 1, 2, -1]), k=rng.choice([0, 1, -1, 2]), thr=rng.choice([-3, 0, 5, 50, 10 ** 6]))
    return e


def gen_tree(rng, depth, max_children, counter, name_pool=None, kinds=("map", "map", "ctm", "marker", "non"), budget=None):
    """Random segment.  `counter` is a one-element list used for fresh names; `name_pool` (optional)
    makes some names repeat."""
    budget = budget if budget is not None else [14]
    n = rng.choice([0, 1, 1, 2, 2, 3, 3, 4, 5, max_children])
    es = []
    for _ in range(n):
        if budget[0] <= 0:
            break
        counter[0] += 1
        nm = f"e{counter[0]}"
        if name_pool and rng.random() < 0.15:
            nm = rng.choice(name_pool)
        if depth > 0 and rng.random() < 0.3:
            sub = gen_tree(rng, depth - 1, max_children, counter, name_pool, kinds, budget)
            sub["name"] = nm
            es.append(sub)
        else:
            budget[0] -= 1
            es.append(gen_leaf(rng, nm, kinds))
    counter[0] += 1
    return {"kind": "seg", "name": f"s{counter[0]}", "es": es}


def gen_beam(rng, btype=None):
    btype = btype or rng.choice(["parts", "param"])
    E = rng.choice([1, 2, 3, 5])
    if btype == "parts":
        n = rng.choice([1, 2, 3, 4])
        ps = [[rng.randrange(-3, 4) for _ in range(6)] + [1] for _ in range(n)]
        return {"type": "parts", "ps": ps, "E": E, "q": [rng.randrange(0, 4) for _ in range(n)],
                "s": [rng.choice([1, 1, 1, 0]) for _ in range(n)]}
    a = [[rng.randrange(-2, 3) for _ in range(6)] + [0] for _ in range(6)] + [[0] * 7]
    cov = [[sum(a[i][k] * a[j][k] for k in range(7)) for j in range(7)] for i in range(7)]
    return {"type": "param", "mu": [rng.randrange(-3, 4) for _ in range(6)] + [1], "cov": cov, "E": E, "Q": rng.randrange(0, 5)}


def leaves(e):
    if e["kind"] == "seg":
        return [l for c in e["es"] for l in leaves(c)]
    return [e]


def is_skippable(e):
    if e["kind"] == "seg":
        return all(is_skippable(c) for c in e["es"])
    return e["kind"] != "non"


def shape_sig(e):
    """canonical structural signature (kinds and nesting, not numbers) for distinctness counting"""
    if e["kind"] == "seg":
        return ["seg"] + [shape_sig(c) for c in e["es"]]
    return e["kind"] + ("+E" if e.get("a1") else "")


# ------------------------------------------------------------------ vectorised variants (one scalar tree per batch entry)
def vary_tree(rng, tree):
    """A copy of `tree` with the same structure/names/kinds but (some) different numbers in the leaves."""
    import copy
    t = copy.deepcopy(tree)

    def go(e):
        if e["kind"] == "seg":
            for c in e["es"]:
                go(c)
        elif e["kind"] == "map" and rng.random() < 0.6:
            e["a0"] = gen_sparse(rng, rng.randrange(0, 4))
            e["a1"] = gen_sparse(rng, rng.randrange(0, 3), -1, 1)
        elif e["kind"] == "ctm" and rng.random() < 0.6:
            e["a0"] = gen_sparse(rng, rng.randrange(0, 4))
        elif e["kind"] == "non" and rng.random() < 0.6:
            e.update(dE=rng.choice([0, 1, 2, -1]), k=rng.choice([0, 1, -1, 2]))
        if e["kind"] in ("map", "ctm", "non") and rng.random() < 0.3:
            e["len"] = rng.choice([0, 1, 2, 3])
    go(t)
    return t


def _stack_or_single(vals):
    if all(v == vals[0] for v in vals):
        return vals[0]
    return vals


def build_batched(trees):
    """list of same-shaped scalar trees -> one real element whose parameters carry a leading batch dimension where they differ"""
    e = trees[0]
    k = e["kind"]
    if k == "seg":
        return cheetah.Segment([build_batched([t["es"][i] for t in trees]) for i in range(len(e["es"]))], name=e["name"])
    ln = _stack_or_single([float(t["len"]) for t in trees])
    if k == "map":
        return ZMap(_stack_or_single([dense(t["a0"], True) for t in trees]), _stack_or_single([dense(t["a1"], False) for t in trees]), ln, name=e["name"])
    if k == "ctm":
        m = torch.tensor(_stack_or_single([dense(t["a0"], True) for t in trees]), dtype=DT)
        lt = torch.tensor(ln, dtype=DT)
        if m.dim() == 3 and lt.dim() == 0:
            lt = lt.expand(m.shape[0]).clone()
        return cheetah.CustomTransferMap(m, length=lt, name=e["name"])
    if k == "marker":
        return cheetah.Marker(name=e["name"])
    if k == "non":
        return ZNon(_stack_or_single([float(t["dE"]) for t in trees]), _stack_or_single([float(t["k"]) for t in trees]),
                    _stack_or_single([float(t["thr"]) for t in trees]), ln, name=e["name"])
    raise ValueError(k)


def build_beam_batched(beams):
    b0 = beams[0]
    if b0["type"] == "parts":
        return cheetah.ParticleBeam(torch.tensor(_stack_or_single([b["ps"] for b in beams]), dtype=DT),
                                    torch.tensor(_stack_or_single([float(b["E"]) for b in beams]), dtype=DT),
                                    particle_charges=torch.tensor(b0["q"], dtype=DT), survival_probabilities=torch.tensor(b0["s"], dtype=DT), dtype=DT)
    return cheetah.ParameterBeam(torch.tensor(_stack_or_single([b["mu"] for b in beams]), dtype=DT),
                                 torch.tensor(_stack_or_single([b["cov"] for b in beams]), dtype=DT),
                                 torch.tensor(_stack_or_single([float(b["E"]) for b in beams]), dtype=DT),
                                 total_charge=torch.tensor(float(b0["Q"]), dtype=DT), dtype=DT)


def observe_beam_entry(b, i, nb):
    """entry i of a (possibly) batched real beam as a scalar observation dict"""
    def ent(t, trailing):
        t = t.detach()
        if t.dim() > trailing:
            if t.shape[0] == 1:
                return t[0]
            return t[i]
        return t
    if isinstance(b, cheetah.ParticleBeam):
        return {"type": "parts", "ps": _ints(ent(b.particles, 2)), "E": _ints(ent(b.energy, 0)), "q": _ints(ent(b.particle_charges, 1)),
                "s": _ints(ent(b.survival_probabilities, 1))}
    tq = b.total_charge
    if tq.dim() == 1 and tq.shape[0] == 1 and nb != 1:
        tq = tq[0]
    return {"type": "param", "mu": _ints(ent(b._mu, 1)), "cov": _ints(ent(b._cov, 2)), "E": _ints(ent(b.energy, 0)), "Q": _ints(ent(tq, 0))}
