#!/bin/bash
# Build the Coq development from files on disk only (offline). Full .vo build.
set -e
cd "$(dirname "$0")/coq"
export OCAMLRUNPARAM='s=4M,h=256M'
coq_makefile -f _CoqProject -o Makefile $(find theories -name '*.v' | sort)
timeout 7200 make -j16
