#!/bin/bash
# Build the Coq development from files on disk only (offline). Full .vo build (never -vos).
# -k: a file that fails to build must not prevent the others from being built; each check re-builds the
# dependency closure of its own Props file and reports a failure there as a broken proof obligation.
cd "$(dirname "$0")/coq" || exit 1
export OCAMLRUNPARAM='s=4M,h=256M'
coq_makefile -f _CoqProject -o Makefile $(find theories -name '*.v' | sort) || exit 1
timeout 7200 make -k -j16
echo "setup: make exit status $?"
exit 0
